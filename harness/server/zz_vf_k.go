//go:build verif

package server

import (
	"net/http"
	"strings"

	"github.com/resgateio/resgate/server/codec"
	"github.com/resgateio/resgate/server/reserr"
	"github.com/resgateio/resgate/zzvf"
)

func init() {
	zzvf.Register("VF_C17_K3_Origins", VF_C17_K3_Origins)
	zzvf.Register("VF_C17_K4_ErrorStatus", VF_C17_K4_ErrorStatus)
	zzvf.Register("VF_C17_K5_StatusError", VF_C17_K5_StatusError)
	zzvf.Register("VF_C14_K3_Path", VF_C14_K3_Path)
	zzvf.Register("VF_C08_S1_Counts", VF_C08_S1_Counts)
}

func vfLower(c byte) byte {
	if 'A' <= c && c <= 'Z' {
		return c + ('a' - 'A')
	}
	return c
}

// VF_C17_K3_Origins: matchesOrigins(list, origin) is true exactly when the
// origin equals a listed origin byte for byte ignoring ASCII case. The list
// entry goes through the real lower-casing of validateAllowOrigin
// (toLowerASCII).
func VF_C17_K3_Origins() {
	n := zzvf.Param("n")
	m := zzvf.Param("m")
	entry := toLowerASCII(zzvf.Str("entry", n))
	origin := zzvf.Str("origin", m)
	zzvf.Reach("c17k3-start")
	got := matchesOrigins([]string{entry}, origin)
	want := n == m
	if want {
		eq := true
		for i := 0; i < n; i++ {
			o := origin[i]
			lo := byte(zzvf.Ite(zzvf.And(o >= 'A', o <= 'Z'), int(o)+32, int(o)))
			eq = zzvf.And(eq, lo == entry[i])
		}
		zzvf.Assert(zzvf.Iff(got, eq), "origin-match-iff-equal-ignoring-ascii-case")
		return
	}
	zzvf.Assert(!got, "origin-of-other-length-never-matches")
}

var vfStatusTable = []struct {
	code   string
	status int
}{
	{reserr.CodeNotFound, 404}, {reserr.CodeMethodNotFound, 404}, {reserr.CodeTimeout, 404},
	{reserr.CodeAccessDenied, 401}, {reserr.CodeForbidden, 403}, {reserr.CodeMethodNotAllowed, 405},
	{reserr.CodeSubjectTooLong, 414}, {reserr.CodeInternalError, 500}, {reserr.CodeServiceUnavailable, 503},
}

// VF_C17_K4_ErrorStatus: every error code maps to its fixed HTTP status;
// any other code (symbolic bytes) maps to 400; non-RES errors are 500.
func VF_C17_K4_ErrorStatus() {
	n := zzvf.Param("n")
	code := zzvf.Str("code", n)
	zzvf.Reach("c17k4-start")
	rerr, st := errorStatus(&reserr.Error{Code: code, Message: "m"})
	want := 400
	for _, e := range vfStatusTable {
		if code == e.code {
			want = e.status
		}
	}
	zzvf.Assert(st == want, "error-code-maps-to-fixed-status")
	zzvf.Assert(zzvf.StrEq(rerr.Code, code), "error-code-kept")
	if n == 0 {
		for _, e := range vfStatusTable {
			_, st := errorStatus(&reserr.Error{Code: e.code})
			zzvf.Assert(st == e.status, "table-entry-status")
		}
		for _, c := range []string{reserr.CodeInvalidParams, reserr.CodeInvalidQuery, reserr.CodeNoSubscription, reserr.CodeInvalidRequest, reserr.CodeUnsupportedProtocol, reserr.CodeDeleted, reserr.CodeBadRequest, reserr.CodeNotImplemented} {
			_, st := errorStatus(&reserr.Error{Code: c})
			zzvf.Assert(st == 400, "other-predefined-code-is-400")
		}
	}
}

// VF_C17_K5_StatusError: statusError over all 64-bit statuses never returns
// nil and maps each status class to the documented error.
func VF_C17_K5_StatusError() {
	st := zzvf.Int("status")
	zzvf.Reach("c17k5-start")
	e := statusError(st)
	zzvf.Assert(e != nil, "status-error-non-nil")
	var want *reserr.Error
	switch {
	case st == 401 || st == 402 || st == 407:
		want = reserr.ErrAccessDenied
	case st == 403 || st == 451:
		want = reserr.ErrForbidden
	case st == 404 || st == 410:
		want = reserr.ErrNotFound
	case st == 405:
		want = reserr.ErrMethodNotAllowed
	case st == 408 || st == 504:
		want = reserr.ErrTimeout
	case st >= 400 && st < 500:
		want = reserr.ErrBadRequest
	case st == 501:
		want = reserr.ErrNotImplemented
	case st == 503:
		want = reserr.ErrServiceUnavailable
	default:
		want = reserr.ErrInternalError
	}
	zzvf.Assert(e == want, "status-error-table")
}

var vfAPIPaths = []string{"/api/", "/", "/a%2F/"}

// VF_C14_K3_Path: HTTP path -> resource id. For every path = apiPath + tail
// (tail symbolic, incl. %-escapes) the rid produced by PathToRID /
// PathToRIDAction either fails the validators (404, no service traffic) or
// is a grammatical rid whose name part has only subject-safe tokens.
func VF_C14_K3_Path() {
	n := zzvf.Param("n")
	api := vfAPIPaths[zzvf.Param("api")]
	tail := zzvf.Str("tail", n)
	path := api + tail
	zzvf.Reach("c14k3-start")
	fn := zzvf.Choose("fn", 3)
	if fn == 2 {
		// a path that does not start with the apiPath (any bytes of the
		// same length in its place) maps to no resource at all
		foreign := zzvf.Str("prefix", len(api))
		zzvf.Assume(zzvf.Not(zzvf.StrEq(foreign, api)))
		zzvf.Reach("c14k3-foreign-prefix")
		rid := PathToRID(foreign+tail, "", api)
		zzvf.Assert(zzvf.StrEq(rid, ""), "path-outside-the-apipath-maps-to-nothing")
		rid2, action := PathToRIDAction(foreign+tail, "", api)
		zzvf.Assert(zzvf.And(zzvf.StrEq(rid2, ""), zzvf.StrEq(action, "")), "path-outside-the-apipath-maps-to-no-call")
		return
	}
	if fn == 0 {
		rid := PathToRID(path, "", api)
		want, ok := vfRefPathToRID(tail)
		if !ok {
			want = ""
		}
		zzvf.Assert(zzvf.StrEq(rid, want), "path-maps-to-the-percent-decoded-rid")
		if codec.IsValidRID(rid, true) {
			zzvf.Reach("c14k3-accepted")
			zzvf.Assert(vfSubjectSafe(rid), "get-rid-is-subject-safe")
		}
		return
	}
	rid, action := PathToRIDAction(path, "", api)
	if codec.IsValidRID(rid, true) && codec.IsValidRIDPart(action) {
		zzvf.Assert(vfSubjectSafe(rid), "post-rid-is-subject-safe")
		zzvf.Assert(vfSubjectSafe(action) && !vfHasByte(action, '.'), "post-action-is-one-safe-token")
	}
}

func vfHexVal(c byte) int {
	switch {
	case c >= '0' && c <= '9':
		return int(c - '0')
	case c >= 'a' && c <= 'f':
		return int(c-'a') + 10
	case c >= 'A' && c <= 'F':
		return int(c-'A') + 10
	}
	return -1
}

// vfRefPathToRID: reference for the path part after the apiPath prefix:
// no literal dot, optional leading slash, segments split at '/', each
// percent-decoded (an invalid escape rejects the path), joined with dots.
func vfRefPathToRID(tail string) (string, bool) {
	if len(tail) == 0 {
		return "", false
	}
	for i := 0; i < len(tail); i++ {
		if tail[i] == '.' {
			return "", false
		}
	}
	if tail[0] == '/' {
		tail = tail[1:]
	}
	out := make([]byte, 0, len(tail))
	for i := 0; i < len(tail); i++ {
		c := tail[i]
		switch {
		case c == '/':
			out = append(out, '.')
		case c == '%':
			if i+2 >= len(tail) {
				return "", false
			}
			h, l := vfHexVal(tail[i+1]), vfHexVal(tail[i+2])
			if h < 0 || l < 0 {
				return "", false
			}
			out = append(out, byte(h<<4|l))
			i += 2
		default:
			out = append(out, c)
		}
	}
	return string(out), true
}

func vfHasByte(s string, b byte) bool {
	for i := 0; i < len(s); i++ {
		if s[i] == b {
			return true
		}
	}
	return false
}

// vfSubjectSafe: non-empty dot separated tokens of printable non-space ASCII
// without wildcards; stops at the first '?' (query is payload, not subject).
func vfSubjectSafe(s string) bool {
	tok := 0
	for i := 0; i < len(s); i++ {
		c := s[i]
		if c == '?' {
			break
		}
		if c == '.' {
			if tok == 0 {
				return false
			}
			tok = 0
			continue
		}
		if c < 33 || c > 126 || c == '*' || c == '>' {
			return false
		}
		tok++
	}
	return tok > 0
}

// VF_C08_S1_Counts: the counting primitives with full-width symbolic
// counters: the 256 limit, exact arithmetic, unsubscribe succeeds iff
// count <= direct.
func VF_C08_S1_Counts() {
	direct := zzvf.Int("direct")
	indirect := zzvf.Int("indirect")
	count := zzvf.Int("count")
	zzvf.Assume(direct >= 0)
	zzvf.Assume(indirect >= 0)
	zzvf.Assume(direct <= 1<<40)
	zzvf.Assume(indirect <= 1<<40)
	c := vfBareConn()
	sub := &Subscription{rid: "test.model", c: c, state: stateSent, direct: direct, indirect: indirect}
	c.subs["test.model"] = sub
	zzvf.Reach("c08s1-start")
	switch zzvf.Choose("op", 3) {
	case 0: // direct subscribe on an existing subscription
		err := c.addCount(sub, true)
		if direct >= 256 {
			zzvf.Assert(err == error(errSubscriptionLimitExceeded), "limit-exceeded-at-256")
			zzvf.Assert(sub.direct == direct, "rejected-subscribe-leaves-count")
		} else {
			zzvf.Assert(err == nil, "below-limit-accepted")
			zzvf.Assert(sub.direct == direct+1, "accepted-subscribe-adds-one")
		}
		zzvf.Assert(sub.indirect == indirect, "direct-subscribe-keeps-indirect")
	case 1: // indirect
		err := c.addCount(sub, false)
		zzvf.Assert(err == nil && sub.indirect == indirect+1 && sub.direct == direct, "indirect-add")
	case 2: // unsubscribe request with count (rpc layer guarantees count > 0)
		zzvf.Assume(count > 0)
		// keep the subscription alive after the operation so that the
		// collector is not the subject here
		zzvf.Assume(indirect > 0)
		ok := c.UnsubscribeByRID("test.model", count)
		if count <= direct {
			zzvf.Assert(ok, "unsubscribe-succeeds-when-count-le-direct")
			zzvf.Assert(sub.direct == direct-count, "unsubscribe-subtracts-count")
		} else {
			zzvf.Assert(!ok, "unsubscribe-fails-when-count-gt-direct")
			zzvf.Assert(sub.direct == direct, "failed-unsubscribe-leaves-count")
		}
		zzvf.Assert(sub.direct >= 0, "direct-never-negative")
	}
}

func init() {
	zzvf.Register("VF_C14_K4_CallPath", VF_C14_K4_CallPath)
}

// vfMQSubject: a subject as it may be published: exactly `tokens` non-empty
// dot separated tokens of printable non-space ASCII without wildcards or '?'.
func vfMQSubject(s string, tokens int) bool {
	tok, n := 0, 1
	for i := 0; i < len(s); i++ {
		c := s[i]
		if c == '.' {
			if tok == 0 {
				return false
			}
			tok = 0
			n++
			continue
		}
		if c < 33 || c > 126 || c == '*' || c == '>' || c == '?' {
			return false
		}
		tok++
	}
	return tok > 0 && (tokens < 0 || n == tokens)
}

// VF_C14_K4_CallPath: an HTTP call request through the real apiHandler and
// handleCall (not through a copy of their guards): POST (or a mapped PUT) on
// /api/test/model/<tail> with n symbolic tail bytes (percent escapes
// included), with and without a query string. Either the request is refused
// with 404 and no service traffic at all, or every subject handed to the
// messaging client is access.test.model / call.test.model.<one safe token>.
func VF_C14_K4_CallPath() {
	n := zzvf.Param("n")
	tail := zzvf.Str("tail", n)
	put := "replace"
	w := vfNewWorld(Config{APIPath: "/api/", PUTMethod: &put})
	// the tail is the method segment only (a '/' would extend the resource
	// id, whose mapping K3 covers; a symbolic resource id cannot be a map key
	// in the connection's and the cache's tables)
	for i := 0; i < len(tail); i++ {
		zzvf.Assume(tail[i] != '/')
	}
	method, path := "POST", "/api/test/model/"+tail
	rawQuery := []string{"", "q=foo"}[zzvf.Choose("query", 2)]
	zzvf.Reach("c14k4-start")
	rec, cl := w.vfHTTP(method, path, rawQuery, "", http.Header{})
	w.settle()
	for i := 0; i < 4; i++ {
		p := w.mq.pending()
		if len(p) == 0 {
			break
		}
		if strings.HasPrefix(p[0].subject, "access.") {
			w.mq.answer(p[0], []byte(`{"result":{"get":true,"call":"*"}}`), nil)
		} else {
			w.mq.answer(p[0], []byte(`{"result":null}`), nil)
		}
		w.settle()
	}
	if cl == nil {
		zzvf.Assert(rec.status == 404 || rec.status == 405, "refused-path-is-answered-404")
		zzvf.Assert(len(w.mq.reqs) == 0, "refused-path-causes-no-service-traffic")
		return
	}
	zzvf.Reach("c14k4-accepted")
	for _, q := range w.mq.reqs {
		switch {
		case strings.HasPrefix(q.subject, "access."):
			zzvf.Assert(vfMQSubject(q.subject, -1), "access-subject-is-grammatical")
		case strings.HasPrefix(q.subject, "call."):
			zzvf.Assert(vfMQSubject(q.subject, -1), "call-subject-has-only-safe-tokens")
			if method == "POST" {
				// every '/' of the tail adds one token to the resource id;
				// the method is the single last token
				slashes := 0
				for i := 0; i < len(tail); i++ {
					if tail[i] == '/' {
						slashes++
					}
				}
				zzvf.Assert(vfMQSubject(q.subject, 4+slashes), "call-method-is-one-safe-token")
			}
		default:
			zzvf.Assert(false, "only-access-and-call-requests-are-made")
		}
	}
}

func init() {
	zzvf.Register("VF_C16_K2_APIPath", VF_C16_K2_APIPath)
}

// VF_C16_K2_APIPath: the configured apiPath is normalised by the real
// Config.SetDefault / prepare to end in exactly one slash (the default when
// empty), and a GET on <apiPath>test/model is then routed to the resource
// test.model by the real apiHandler; hrefs carry the same prefix.
func VF_C16_K2_APIPath() {
	cands := []string{"", "/api", "/api/", "/", "/v1/api", "/v1/api/", "/a", "/v1.0/", "/v1.0/api"}
	in := cands[zzvf.Choose("apipath", len(cands))]
	// one more symbolic byte in front of the (optional) trailing slash
	b := zzvf.Byte("b")
	zzvf.Assume(zzvf.And(b >= 'a', b <= 'c'))
	if in != "" && in != "/" && zzvf.Choose("extend", 2) == 1 {
		if in[len(in)-1] == '/' {
			in = in[:len(in)-1] + string([]byte{b}) + "/"
		} else {
			in = in + string([]byte{b})
		}
	}
	cfg := Config{APIPath: in, NoHTTP: true}
	cfg.SetDefault()
	zzvf.Reach("c16k2-start")
	zzvf.Assert(cfg.prepare() == nil, "config-accepted")
	want := in
	if want == "" {
		want = DefaultAPIPath
	}
	if want[len(want)-1] != '/' {
		want += "/"
	}
	zzvf.Assert(zzvf.StrEq(cfg.APIPath, want), "apipath-normalised-to-one-trailing-slash")
	w := vfNewWorld(cfg)
	rec, cl := w.vfHTTP("GET", want+"test/model", "", "", http.Header{})
	w.settle()
	zzvf.Assert(cl != nil && rec.status == 0, "resource-path-under-the-apipath-is-routed")
	found := false
	for _, q := range w.mq.reqs {
		if q.subject == "access.test.model" {
			found = true
		}
	}
	zzvf.Assert(found, "resource-path-under-the-apipath-reaches-the-resource")
	// a call (POST) under the same prefix is routed as well
	w2 := vfNewWorld(cfg)
	rec2, cl2 := w2.vfHTTP("POST", want+"test/model/act", "", "", http.Header{})
	w2.settle()
	zzvf.Assert(cl2 != nil && rec2.status == 0, "call-path-under-the-apipath-is-routed")
	found = false
	for _, q := range w2.mq.reqs {
		if q.subject == "access.test.model" {
			found = true
		}
	}
	zzvf.Assert(found, "call-path-under-the-apipath-reaches-the-resource")
}
