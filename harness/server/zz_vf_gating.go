//go:build verif

package server

import (
	"encoding/json"
	"strings"

	"github.com/resgateio/resgate/server/rescache"
	"github.com/resgateio/resgate/zzvf"
)

func init() {
	zzvf.Register("VF_C04_L1_ReadGating", VF_C04_L1_ReadGating)
	zzvf.Register("VF_C05_L1_CallGating", VF_C05_L1_CallGating)
	zzvf.Register("VF_C06_L2_LoadingTrigger", VF_C06_L2_LoadingTrigger)
	zzvf.Register("VF_C09_L2_GatingLeak", VF_C09_L2_GatingLeak)
}

var vfGateKinds = []vfReqKind{
	{method: "subscribe.test.model", verb: "subscribe", rid: "test.model"},
	{method: "get.test.model", verb: "get", rid: "test.model"},
	{method: "call.test.model.method", verb: "call", rid: "test.model"},
	{method: "new.test.collection", verb: "new", rid: "test.collection"},
	{method: "subscribe.test.parent", verb: "subscribe", rid: "test.parent"},
	{method: "auth.test.model.login", verb: "auth", rid: "test.model"},
	{method: "call.test.model.m", verb: "call", rid: "test.model"},
	{method: "unsubscribe.test.model", verb: "unsubscribe", rid: "test.model", count: 1},
	{method: "subscribe.test.parent2", verb: "subscribe", rid: "test.parent2"},
}

type vfGateState struct {
	valid    map[string]bool   // a get grant for name is valid
	call     map[string]string // call list of the valid answer
	everGot  map[string]bool   // an access answer granting get was received at some point
	multi    map[string]bool   // several access checks for the name were in flight at once
	token    string            // current token ("" = none)
	hadToken bool
	seenReq  int
}

func vfRefGrants(call, method string) bool {
	if call == "*" {
		return true
	}
	start := 0
	for i := 0; i <= len(call); i++ {
		if i == len(call) || call[i] == ',' {
			if call != "" && call[start:i] == method {
				return true
			}
			start = i + 1
		}
	}
	return false
}

// vfGating: request pairs on one connection against every access outcome,
// answer order, and one revocation trigger (token event, reaccess event,
// system reset) at any position.
func vfGating(checkGet, checkCall bool, checkRevoke ...bool) {
	rich := zzvf.Param("rich") == 1
	ntrig := zzvf.Param("triggers")
	symCall := zzvf.Param("symcall")
	w := vfNewWorld(Config{})
	cl := w.connect("cidA", versionLatest)
	r := vfNewRun(w, cl)
	g := &vfGateState{valid: map[string]bool{}, call: map[string]string{}, everGot: map[string]bool{}, multi: map[string]bool{}}
	kinds := []vfReqKind{vfGateKinds[zzvf.Param("k0")]}
	if k1 := zzvf.Param("k1"); k1 >= 0 {
		kinds = append(kinds, vfGateKinds[k1])
	}
	if k2 := zzvf.ParamOr("k2", -1); k2 >= 0 {
		kinds = append(kinds, vfGateKinds[k2])
	}
	if k3 := zzvf.ParamOr("k3", -1); k3 >= 0 {
		kinds = append(kinds, vfGateKinds[k3])
	}
	lean := zzvf.ParamOr("lean", 0) == 1
	// hold: get.test.other (a sibling reference) is answered only after all
	// client requests have been issued - keeps a parent loading meanwhile
	// seq: client requests do not overlap (the next one is issued only when
	// every service request has been answered)
	seq := zzvf.ParamOr("seq", 0) == 1
	if zzvf.Param("pretoken") == 1 {
		// the connection already has a token
		w.mq.event("conn.cidA", "token", []byte(`{"token":{"user":"old"},"tid":"tid1"}`))
		w.settle()
		g.token = `{"user":"old"}`
		g.hadToken = true
	}
	next := 0
	discs := zzvf.ParamOr("disconnects", 0)
	zzvf.Reach("gating-start")
	for step := 0; step < 24; step++ {
		pend := w.mq.pending()
		nact := 0
		issueAct, trigAct := -1, -1
		if next < len(kinds) && !(seq && len(pend) > 0) {
			issueAct = nact
			nact++
		}
		pend = vfAnswerable(pend, next < len(kinds) || ntrig > 0, next < len(kinds))
		firstAnswer := nact
		nact += len(pend)
		if ntrig > 0 {
			trigAct = nact
			nact++
		}
		discAct := -1
		if discs > 0 && !r.disc {
			discAct = nact
			nact++
		}
		if nact == 0 || (nact == 1 && trigAct == 0) {
			break
		}
		a := zzvf.Choose("action", nact)
		switch {
		case a == discAct:
			discs--
			zzvf.Note("disconnect")
			r.disc = true
			next = len(kinds)
			w.disconnect(cl)
		case a == issueAct:
			k := kinds[next]
			next++
			zzvf.Note("client: " + k.method)
			r.issue(k)
		case a == trigAct:
			ntrig--
			switch zzvf.Choose("trigger", 3) {
			case 0:
				zzvf.Note("trigger: token event")
				if g.hadToken {
					for n := range g.valid {
						vfTagDeferred(cl, g, n)
						g.valid[n] = false
					}
				}
				w.mq.event("conn.cidA", "token", []byte(`{"token":{"user":"new"},"tid":"tid1"}`))
				g.token = `{"user":"new"}`
				g.hadToken = true
			case 1:
				zzvf.Note("trigger: reaccess event on test.model")
				if w.mq.activeSub("event.test.model") != nil {
					vfTagDeferred(cl, g, "test.model")
					g.valid["test.model"] = false
					w.mq.event("event.test.model", "reaccess", nil)
				}
			case 2:
				zzvf.Note("trigger: system reset access test.>")
				for n := range g.valid {
					vfTagDeferred(cl, g, n)
					g.valid[n] = false
				}
				w.mq.event("system", "reset", []byte(`{"access":["test..bad","other.>","test.>"]}`))
			}
		default:
			req := pend[a-firstAnswer]
			outs := vfOutcomes(req.subject, rich)
			if lean {
				// lean mode: access grant/deny, everything else succeeds
				if strings.HasPrefix(req.subject, "access.") {
					outs = outs[:2]
				} else {
					outs = outs[:1]
				}
			}
			var o vfOutcome
			if strings.HasPrefix(req.subject, "access.") && symCall > 0 && zzvf.Choose("symbolic-call-list", 2) == 1 {
				// grant get with a symbolic call list
				list := zzvf.Str("calllist", symCall)
				for i := 0; i < symCall; i++ {
					c := list[i]
					zzvf.Assume(zzvf.And(c >= 0x20, zzvf.And(c != '"', zzvf.And(c != '\\', c < 0x7f))))
				}
				o = vfOutcome{label: "grant-symbolic-call", payload: []byte(`{"result":{"get":true,"call":"` + list + `"}}`)}
				name := req.subject[len("access."):]
				g.valid[name] = true
				g.everGot[name] = true
				g.call[name] = list
				zzvf.Note("service: " + req.subject + " -> grant get, symbolic call list")
				w.mq.answer(req, o.payload, nil)
				break
			}
			o = outs[zzvf.Choose("outcome", len(outs))]
			zzvf.Note("service: " + req.subject + " -> " + o.label)
			if strings.HasPrefix(req.subject, "access.") {
				name := req.subject[len("access."):]
				for _, other := range w.mq.pending() {
					if other != req && other.subject == req.subject {
						// two access checks for the same resource in flight
						// (e.g. one of them for a subscription disposed
						// meanwhile): which answer governs is not judged
						g.multi[name] = true
					}
				}
				g.valid[name] = o.label == "grant"
				if o.label == "grant" {
					g.everGot[name] = true
					g.call[name] = "*"
				} else {
					g.call[name] = ""
				}
			}
			w.mq.answer(req, o.payload, o.err)
		}
		w.settle()
		vfCheckNewRequests(w, g, checkCall)
		frames := r.observe()
		if checkGet {
			vfCheckDataFrames(r, g, frames)
		}
	}
	zzvf.Reach("gating-end")
	if len(checkRevoke) > 1 && checkRevoke[1] {
		// everybody leaves; late answers; the eviction delay passes
		if !r.disc {
			w.disconnect(cl)
		}
		w.settle()
		for i := 0; i < 8 && len(w.mq.pending()) > 0; i++ {
			for _, q := range w.mq.pending() {
				outs := vfOutcomes(q.subject, false)
				w.mq.answer(q, outs[0].payload, outs[0].err)
			}
			w.settle()
		}
		vfCheckCacheInvariant(w)
		rescache.VFFlushEvictions(w.s.cache)
		w.settle()
		zzvf.Reach("gating-all-gone")
		ents := rescache.VFEntries(w.s.cache)
		if len(ents) > 0 {
			zzvf.Note("entry left: " + ents[0].Name)
		}
		zzvf.Assert(len(ents) == 0, "no-cache-entry-left-without-users")
		for _, s := range w.mq.subs {
			if !s.unsub && strings.HasPrefix(s.ns, "event.") {
				zzvf.Assert(false, "no-resource-event-subscription-left")
			}
		}
	}
	if len(checkRevoke) > 0 && checkRevoke[0] {
		// C06: whatever the moment of the trigger relative to loading, a
		// client that ends up directly subscribed holds a grant that was
		// obtained after the last trigger
		zzvf.Assert(vfQuiescent(w), "run-reaches-quiescence")
		for _, name := range []string{"test.model", "test.parent", "test.collection"} {
			if r.count[name] > 0 && r.directCount(name) > 0 {
				if s := cl.c.subs[name]; s != nil && s.err != nil {
					// the client holds an error placeholder, not the resource
					continue
				}
				if g.multi[name] {
					continue
				}
				zzvf.Reach("gating-still-subscribed")
				if !g.valid[name] {
					for _, f := range cl.frames {
						if len(f) > 160 {
							f = f[:160]
						}
						zzvf.Note("frame: " + f)
					}
				}
				zzvf.Assert(g.valid[name], "subscribed-only-under-a-grant-newer-than-the-last-trigger")
			}
		}
	}
}

// vfTagDeferred marks the D7 window: a trigger reaches a subscription that
// holds a valid grant while it is still queueing events (loading), so the
// gateway only sets its deferred reaccess flag.
func vfTagDeferred(cl *vfClient, g *vfGateState, name string) {
	if !g.valid[name] {
		return
	}
	zzvf.Tag("trigger-after-grant")
	if s, ok := cl.c.subs[name]; ok && s.queueFlag != 0 {
		zzvf.Tag("trigger-deferred-while-queueing")
	}
}

// vfCheckNewRequests inspects the service requests recorded since the last
// step: cid and token of every access/call/auth payload, and the grant behind
// every forwarded call.
func vfCheckNewRequests(w *vfWorld, g *vfGateState, checkCall bool) {
	reqs := w.mq.reqs
	for ; g.seenReq < len(reqs); g.seenReq++ {
		req := reqs[g.seenReq]
		i := strings.IndexByte(req.subject, '.')
		typ := req.subject[:i]
		if typ != "access" && typ != "call" && typ != "auth" {
			continue
		}
		var p struct {
			CID   string          `json:"cid"`
			Token json.RawMessage `json:"token"`
		}
		if json.Unmarshal(req.payload, &p) != nil {
			zzvf.Assert(false, "service-request-payload-is-json")
			continue
		}
		if checkCall {
			zzvf.Assert(p.CID == "cidA", "request-carries-own-cid")
			tok := string(p.Token)
			if tok == "null" {
				tok = "" // no token set: sent as null
			}
			zzvf.Assert(tok == g.token, "request-carries-current-token")
		}
		if typ == "call" && checkCall {
			rest := req.subject[i+1:]
			j := strings.LastIndexByte(rest, '.')
			name, method := rest[:j], rest[j+1:]
			zzvf.Reach("gating-call-forwarded")
			zzvf.Assert(g.everGot[name] || g.call[name] != "", "call-forwarded-only-after-an-access-answer")
			if !g.valid[name] {
				// forwarded under an answer that a trigger has outdated
				zzvf.Tag("call-under-outdated-grant")
			}
			zzvf.Assert(g.valid[name], "call-forwarded-only-under-valid-grant")
			zzvf.Assert(vfRefGrants(g.call[name], method), "call-forwarded-only-if-method-granted")
		}
	}
}

// vfCheckDataFrames: a response that hands the requested resource's data to
// the client needs a valid get grant for it.
func vfCheckDataFrames(r *vfRun, g *vfGateState, frames []vfFrame) {
	for _, fr := range frames {
		if fr.ID == nil || fr.Error != nil {
			continue
		}
		it := r.findIssued(*fr.ID)
		if it == nil {
			continue
		}
		root := ""
		switch it.kind.verb {
		case "subscribe", "get":
			root = it.kind.rid
		case "call", "new", "auth":
			var res struct {
				RID string `json:"rid"`
			}
			json.Unmarshal(fr.Result, &res)
			root = res.RID
		}
		if root == "" {
			continue
		}
		m, c, _ := vfResourceSet(fr.Result)
		_, inM := m[root]
		_, inC := c[root]
		if !inM && !inC {
			continue
		}
		zzvf.Reach("gating-data-delivered")
		zzvf.Assert(g.everGot[root], "data-only-after-a-get-grant")
		if !g.valid[root] {
			zzvf.Tag("data-under-outdated-grant")
		}
		zzvf.Assert(g.valid[root], "data-only-under-valid-grant")
	}
}

func VF_C04_L1_ReadGating()     { vfGating(true, false) }
func VF_C06_L2_LoadingTrigger() { vfGating(false, false, true) }

// VF_C09_L2_GatingLeak: the gating scenarios (incl. the four-request one in
// which a resource is un-sent while a parent loads) followed by a disconnect
// and the eviction delay: no cache entry or event subscription is left.
func VF_C09_L2_GatingLeak() { vfGating(false, false, false, true) }
func VF_C05_L1_CallGating() { vfGating(false, true) }
