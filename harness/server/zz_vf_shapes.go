//go:build verif

package server

import (
	"encoding/json"
	"strings"

	"github.com/resgateio/resgate/zzvf"
)

func init() {
	zzvf.Register("VF_C02_L2_Shapes", VF_C02_L2_Shapes)
}

// vfShapeRes is a resource of the shape service: a model (ordered keys) or a
// collection.
type vfShapeRes struct {
	typ  byte // 'm' or 'c'
	keys []string
	vals map[string]string
	col  []string
}

func (s *vfShapeRes) payload() string {
	var sb strings.Builder
	if s.typ == 'c' {
		sb.WriteString(`{"collection":[`)
		for i, v := range s.col {
			if i > 0 {
				sb.WriteByte(',')
			}
			sb.WriteString(v)
		}
		sb.WriteString(`]}`)
		return sb.String()
	}
	sb.WriteString(`{"model":{`)
	for i, k := range s.keys {
		if i > 0 {
			sb.WriteByte(',')
		}
		sb.WriteString(`"` + k + `":` + s.vals[k])
	}
	sb.WriteString(`}}`)
	return sb.String()
}

func vfShapeModel(kv ...string) *vfShapeRes {
	r := &vfShapeRes{typ: 'm', vals: map[string]string{}}
	for i := 0; i+1 < len(kv); i += 2 {
		r.keys = append(r.keys, kv[i])
		r.vals[kv[i]] = kv[i+1]
	}
	return r
}

func vfRefVal(rid string) string { return `{"rid":"` + rid + `"}` }

type vfShapeEvent struct {
	rid, name string
	apply     func(svc map[string]*vfShapeRes) string // mutates the service state, returns the payload
}

func vfSub(rid string) vfReqKind {
	return vfReqKind{method: "subscribe." + rid, verb: "subscribe", rid: rid}
}
func vfUnsub(rid string) vfReqKind {
	return vfReqKind{method: "unsubscribe." + rid, verb: "unsubscribe", rid: rid, count: 1}
}

// vfShape returns the resources, client requests and service events of a
// fixed scenario shape.
func vfShape(shape int) (map[string]*vfShapeRes, []vfReqKind, []vfShapeEvent) {
	svc := map[string]*vfShapeRes{}
	var kinds []vfReqKind
	var events []vfShapeEvent
	addRef := func(col string, idx int, target string) vfShapeEvent {
		return vfShapeEvent{rid: col, name: "add", apply: func(svc map[string]*vfShapeRes) string {
			c := svc[col]
			i := idx
			if i > len(c.col) {
				i = len(c.col)
			}
			nc := append([]string{}, c.col[:i]...)
			nc = append(nc, vfRefVal(target))
			c.col = append(nc, c.col[i:]...)
			return `{"idx":` + vfItoa(uint64(i)) + `,"value":` + vfRefVal(target) + `}`
		}}
	}
	remove := func(col string, idx int) vfShapeEvent {
		return vfShapeEvent{rid: col, name: "remove", apply: func(svc map[string]*vfShapeRes) string {
			c := svc[col]
			if idx >= len(c.col) {
				return ""
			}
			nc := append([]string{}, c.col[:idx]...)
			c.col = append(nc, c.col[idx+1:]...)
			return `{"idx":` + vfItoa(uint64(idx)) + `}`
		}}
	}
	setRef := func(model, key, target string) vfShapeEvent {
		return vfShapeEvent{rid: model, name: "change", apply: func(svc map[string]*vfShapeRes) string {
			m := svc[model]
			if _, ok := m.vals[key]; !ok {
				m.keys = append(m.keys, key)
			}
			m.vals[key] = vfRefVal(target)
			return `{"values":{"` + key + `":` + vfRefVal(target) + `}}`
		}}
	}
	switch shape {
	case 0:
		// two parents sharing one child, each with a child of its own
		svc["test.p1"] = vfShapeModel("a", vfRefVal("test.x"), "b", vfRefVal("test.y"))
		svc["test.p2"] = vfShapeModel("a", vfRefVal("test.x"), "b", vfRefVal("test.z"))
		svc["test.x"] = vfShapeModel("v", `"x"`)
		svc["test.y"] = vfShapeModel("v", `"y"`)
		svc["test.z"] = vfShapeModel("v", `"z"`)
		kinds = []vfReqKind{vfSub("test.p1"), vfSub("test.p2"), vfUnsub("test.p1")}
	case 4:
		// as shape 0, with a client get of the shared child in between
		// (what a get hands over is not retained by the client)
		svc["test.p1"] = vfShapeModel("a", vfRefVal("test.x"), "b", vfRefVal("test.y"))
		svc["test.p2"] = vfShapeModel("a", vfRefVal("test.x"), "b", vfRefVal("test.z"))
		svc["test.x"] = vfShapeModel("v", `"x"`)
		svc["test.y"] = vfShapeModel("v", `"y"`)
		svc["test.z"] = vfShapeModel("v", `"z"`)
		kinds = []vfReqKind{vfSub("test.p1"), {method: "get.test.x", verb: "get", rid: "test.x"}, vfSub("test.p2"), vfUnsub("test.p1")}
	case 5:
		// a collection gaining a reference to a model whose own reference
		// is still being fetched, with events on that model meanwhile
		svc["test.c"] = &vfShapeRes{typ: 'c', col: []string{`"a"`}}
		svc["test.m"] = vfShapeModel("k", vfRefVal("test.n"))
		svc["test.n"] = vfShapeModel("v", `"n"`)
		kinds = []vfReqKind{vfSub("test.c")}
		custom := func(rid string) vfShapeEvent {
			return vfShapeEvent{rid: rid, name: "custom", apply: func(svc map[string]*vfShapeRes) string { return `{"x":1}` }}
		}
		events = []vfShapeEvent{addRef("test.c", 1, "test.m"), custom("test.m"), custom("test.m")}
	case 6:
		// a change event adding two references at once, the second one slow,
		// with events on the first meanwhile
		svc["test.r"] = vfShapeModel("v", `"r"`)
		svc["test.x"] = vfShapeModel("v", `"x"`)
		svc["test.y"] = vfShapeModel("v", `"y"`)
		kinds = []vfReqKind{vfSub("test.r")}
		two := vfShapeEvent{rid: "test.r", name: "change", apply: func(svc map[string]*vfShapeRes) string {
			m := svc["test.r"]
			m.keys = append(m.keys, "a", "b")
			m.vals["a"], m.vals["b"] = vfRefVal("test.x"), vfRefVal("test.y")
			return `{"values":{"a":` + vfRefVal("test.x") + `,"b":` + vfRefVal("test.y") + `}}`
		}}
		customX := vfShapeEvent{rid: "test.x", name: "custom", apply: func(svc map[string]*vfShapeRes) string { return `{"x":1}` }}
		events = []vfShapeEvent{two, customX, customX}
	case 7:
		// a chain a -> b -> c with c also subscribed directly, and a slow
		// parent l -> {b, s}: a and c are left while l still loads
		svc["test.a"] = vfShapeModel("k", vfRefVal("test.b"))
		svc["test.b"] = vfShapeModel("k", vfRefVal("test.c"))
		svc["test.c"] = vfShapeModel("v", `"c"`)
		svc["test.l"] = vfShapeModel("k", vfRefVal("test.b"), "s", vfRefVal("test.s"))
		svc["test.s"] = vfShapeModel("v", `"s"`)
		kinds = []vfReqKind{vfSub("test.a"), vfSub("test.c"), vfSub("test.l"), vfUnsub("test.a"), vfUnsub("test.c")}
	case 8:
		// a collection holding the same reference twice (the second one
		// added by an event), both removed again while the member stays
		// subscribed directly; then a slow parent of the member loads
		// while the client leaves the member
		svc["test.c"] = &vfShapeRes{typ: 'c', col: []string{vfRefVal("test.m")}}
		svc["test.m"] = vfShapeModel("v", `"m"`)
		svc["test.l"] = vfShapeModel("k", vfRefVal("test.m"), "s", vfRefVal("test.s"))
		svc["test.s"] = vfShapeModel("v", `"s"`)
		kinds = []vfReqKind{vfSub("test.c"), vfSub("test.m"), vfSub("test.l"), vfUnsub("test.m")}
		events = []vfShapeEvent{addRef("test.c", 1, "test.m"), remove("test.c", 1), remove("test.c", 0)}
	case 9:
		// a sent parent is deleted while its child stays subscribed
		// directly; then a slow parent of the child loads while the
		// client leaves the child
		svc["test.p"] = vfShapeModel("a", vfRefVal("test.x"))
		svc["test.x"] = vfShapeModel("v", `"x"`)
		svc["test.l"] = vfShapeModel("k", vfRefVal("test.x"), "s", vfRefVal("test.s"))
		svc["test.s"] = vfShapeModel("v", `"s"`)
		kinds = []vfReqKind{vfSub("test.p"), vfSub("test.x"), vfSub("test.l"), vfUnsub("test.x")}
		events = []vfShapeEvent{{rid: "test.p", name: "delete", apply: func(svc map[string]*vfShapeRes) string { return "null" }}}
	case 1:
		// a collection gaining a reference to a resource the client also
		// subscribes directly, the collection being left meanwhile
		svc["test.c"] = &vfShapeRes{typ: 'c', col: []string{`"a"`}}
		svc["test.m"] = vfShapeModel("v", `"m"`)
		kinds = []vfReqKind{vfSub("test.c"), vfSub("test.m"), vfUnsub("test.c"), vfUnsub("test.m")}
		events = []vfShapeEvent{addRef("test.c", 1, "test.m"), remove("test.c", 0)}
	case 2:
		// a collection of models with a grandchild; the member is removed
		// and added again while the client comes and goes
		svc["test.c"] = &vfShapeRes{typ: 'c', col: []string{vfRefVal("test.m")}}
		svc["test.m"] = vfShapeModel("k", vfRefVal("test.n"))
		svc["test.n"] = vfShapeModel("v", `"n"`)
		kinds = []vfReqKind{vfSub("test.c"), vfSub("test.n"), vfUnsub("test.c")}
		events = []vfShapeEvent{remove("test.c", 0), addRef("test.c", 0, "test.m")}
	case 3:
		// a model gaining references to a parent with two children, one
		// of them shared with a second directly subscribed parent
		svc["test.r"] = vfShapeModel("v", `"r"`)
		svc["test.p1"] = vfShapeModel("a", vfRefVal("test.x"), "b", vfRefVal("test.y"))
		svc["test.p2"] = vfShapeModel("a", vfRefVal("test.x"))
		svc["test.x"] = vfShapeModel("v", `"x"`)
		svc["test.y"] = vfShapeModel("v", `"y"`)
		kinds = []vfReqKind{vfSub("test.r"), vfSub("test.p2"), vfUnsub("test.r")}
		events = []vfShapeEvent{setRef("test.r", "p", "test.p1")}
	}
	return svc, kinds, events
}

// VF_C02_L2_Shapes: fixed scenario shapes that the three-node graph harness
// does not contain (five resources with a shared child; collections gaining
// and losing references while the client leaves), with the get and access
// answers in every order, the client requests and service events at every
// position. Every frame goes through the reference client; at quiescence the
// client's copies equal the service state.
func VF_C02_L2_Shapes() {
	shape := zzvf.Param("shape")
	nreq := zzvf.Param("reqs")
	nev := zzvf.Param("events")
	holdAccess := zzvf.ParamOr("holdaccess", 0) == 1
	w := vfNewWorld(Config{})
	cl := w.connect("cidA", versionLatest)
	r := vfNewRun(w, cl)
	ref := vfNewRefClient()
	svc, kinds, events := vfShape(shape)
	if nreq < len(kinds) {
		kinds = kinds[:nreq]
	}
	if nev < len(events) {
		events = events[:nev]
	}
	next, evn := 0, 0
	wasSent := map[string]bool{}
	trackUnsend := func() {
		for rid, s := range cl.c.subs {
			if wasSent[rid] && s.state == stateReady {
				zzvf.Tag("unsend")
			}
			wasSent[rid] = s.state == stateSent
		}
	}
	zzvf.Reach("shapes-start")
	for step := 0; step < 60; step++ {
		for again := !holdAccess; again; {
			again = false
			for _, q := range w.mq.pending() {
				if strings.HasPrefix(q.subject, "access.") {
					w.mq.answer(q, []byte(`{"result":{"get":true}}`), nil)
					w.settle()
					again = true
					break
				}
			}
		}
		vfGraphObserve(r, ref)
		pend := vfAnswerable(w.mq.pending(), next < len(kinds) || evn < len(events), next < len(kinds))
		nact := len(pend)
		issueAct, evAct := -1, -1
		if next < len(kinds) && !(kinds[next].verb == "unsubscribe" && r.count[kinds[next].rid] < 1) {
			issueAct = nact
			nact++
		}
		if evn < len(events) {
			evAct = nact
			nact++
		}
		if nact == 0 {
			break
		}
		a := zzvf.Choose("action", nact)
		switch {
		case a == issueAct:
			k := kinds[next]
			next++
			zzvf.Note("client: " + k.method)
			if k.verb == "subscribe" {
				ref.pending[k.rid]++
			}
			if k.verb == "unsubscribe" {
				for _, it := range r.issued {
					if it.kind.verb == "get" && it.responses == 0 {
						// the gateway counts a client get in flight as a
						// direct subscription of that resource
						zzvf.Tag("unsubscribe-while-client-get-in-flight")
					}
				}
			}
			r.issue(k)
		case a == evAct:
			ev := events[evn]
			evn++
			payload := ev.apply(svc)
			if payload != "" {
				zzvf.Note("event: " + ev.rid + "." + ev.name + " " + payload)
				w.mq.event("event."+ev.rid, ev.name, []byte(payload))
			}
		default:
			req := pend[a]
			if strings.HasPrefix(req.subject, "access.") {
				zzvf.Note("service: " + req.subject + " -> grant")
				w.mq.answer(req, []byte(`{"result":{"get":true}}`), nil)
				break
			}
			rid := req.subject[len("get."):]
			zzvf.Note("service: " + req.subject + " -> data")
			w.mq.answer(req, []byte(`{"result":`+svc[rid].payload()+`}`), nil)
		}
		w.settle()
		trackUnsend()
		vfGraphObserve(r, ref)
	}
	zzvf.Assert(vfQuiescent(w), "run-reaches-quiescence")
	zzvf.Reach("shapes-quiescent")
	for _, it := range r.issued {
		zzvf.Assert(it.responses == 1, "every-request-answered-once")
	}
	for rid, res := range ref.store {
		want, ok := svc[rid]
		if !ok || res.typ == 'e' {
			continue
		}
		same := res.typ == want.typ
		if same && res.typ == 'm' {
			same = len(res.model) == len(want.vals)
			for k, v := range want.vals {
				if res.model[k] != v {
					same = false
				}
			}
		}
		if same && res.typ == 'c' {
			same = len(res.col) == len(want.col)
			for i := 0; same && i < len(want.col); i++ {
				if res.col[i] != want.col[i] {
					same = false
				}
			}
		}
		if !same {
			b, _ := json.Marshal(res)
			zzvf.Note("client copy of " + rid + ": " + string(b) + " service: " + want.payload())
		}
		zzvf.Reach("shapes-converged-check")
		zzvf.Assert(same, "client-copy-equals-service-state")
	}
	for rid, n := range ref.direct {
		if n > 0 {
			_, held := ref.store[rid]
			zzvf.Assert(held, "directly-subscribed-resource-is-held")
		}
	}
}
