//go:build verif

package server

import (
	"github.com/resgateio/resgate/zzvf"
)

func init() {
	zzvf.Register("VF_C07_L1_Mixes", VF_C07_L1_Mixes)
	zzvf.Register("VF_C08_L1_Mixes", VF_C08_L1_Mixes)
	zzvf.Register("VF_C03_L2_Handover", VF_C03_L2_Handover)
}

var vfMixKinds = []vfReqKind{
	{method: "subscribe.test.model", verb: "subscribe", rid: "test.model"},
	{method: "unsubscribe.test.model", verb: "unsubscribe", rid: "test.model", count: 1},
	{method: "get.test.model", verb: "get", rid: "test.model"},
	{method: "call.test.model.method", verb: "call", rid: "test.model"},
	{method: "subscribe.test.parent", verb: "subscribe", rid: "test.parent"},
	{method: "unsubscribe.test.parent", verb: "unsubscribe", rid: "test.parent", count: 1},
	{method: "unsubscribe.test.model", params: `{"count":2}`, verb: "unsubscribe", rid: "test.model", count: 2},
	{method: "new.test.collection", verb: "new", rid: "test.collection"},
}

// vfMixes explores request mixes on one connection: R client requests (kinds
// fixed by the instance parameters k0..k2), every answer order and outcome of
// the service requests they cause, and optionally one service event.
func vfMixes(checkC07, checkC08 bool, handover ...bool) {
	nreq := zzvf.Param("reqs")
	rich := zzvf.Param("rich") == 1
	evs := zzvf.Param("events")
	w := vfNewWorld(Config{})
	// proto: the client's negotiated protocol version (0 latest, 1 = 1.2.0,
	// the first version whose call/auth resource responses subscribe,
	// 2 = 1.1.1, where they only name the resource)
	proto := []int{versionLatest, versionCallResourceResponse, versionLegacy}[zzvf.ParamOr("proto", 0)]
	cl := w.connect("cidA", proto)
	r := vfNewRun(w, cl)
	r.noCallSubscription = proto < versionCallResourceResponse
	r.checkHandover = len(handover) > 0 && handover[0]
	var kinds []vfReqKind
	for i := 0; i < nreq; i++ {
		kinds = append(kinds, vfMixKinds[zzvf.Param([]string{"k0", "k1", "k2", "k3"}[i])])
	}
	// established: the connection already holds a direct subscription on
	// test.model; atlimit: with its direct count at the limit (the state is
	// constructed directly instead of replaying 256 subscribe requests)
	atLimit := zzvf.ParamOr("atlimit", 0) == 1
	if zzvf.ParamOr("established", 0) == 1 || atLimit {
		r.issue(vfMixKinds[0])
		w.settle()
		for i := 0; i < 4; i++ {
			p := w.mq.pending()
			if len(p) == 0 {
				break
			}
			r.answer(p[0], vfOutcomes(p[0].subject, false)[0])
			w.settle()
		}
		r.observe()
		zzvf.Assert(r.count["test.model"] == 1 && r.directCount("test.model") == 1, "harness-established")
		if atLimit {
			cl.c.subs["test.model"].direct = SubscriptionCountLimit
			r.count["test.model"] = SubscriptionCountLimit
		}
	}
	// the unsubscribe-while-in-flight finding (D1-count) is listed: the
	// model adopts the gateway's answer and the history goes on
	zzvf.ContinueAfterKnown(checkC08)
	next := 0
	eventsLeft := evs
	zzvf.Reach("mixes-start")
	for step := 0; step < 24; step++ {
		pend := w.mq.pending()
		// enabled external actions
		nact := 0
		issueAct, eventAct := -1, -1
		if next < len(kinds) {
			issueAct = nact
			nact++
		}
		pend = vfAnswerable(pend, next < len(kinds) || eventsLeft > 0, next < len(kinds))
		firstAnswer := nact
		nact += len(pend)
		if eventsLeft > 0 && w.mq.activeSub("event.test.model") != nil {
			eventAct = nact
			nact++
		}
		if nact == 0 {
			break
		}
		a := zzvf.Choose("action", nact)
		switch {
		case a == issueAct:
			k := kinds[next]
			next++
			if k.verb == "unsubscribe" && r.directCount(k.rid) > r.count[k.rid] {
				// the gateway's direct count includes requests that have
				// not been answered yet (D1)
				zzvf.Tag("unsub-while-inflight-count")
			}
			if k.verb == "call" || k.verb == "new" {
				if s, ok := cl.c.subs[k.rid]; ok && s.direct == 0 {
					zzvf.Tag("call-via-indirect-subscription")
				}
			}
			zzvf.Note("client: " + k.method + " " + k.params)
			r.issue(k)
		case a == eventAct:
			eventsLeft--
			switch zzvf.Choose("event", 3) {
			case 0:
				zzvf.Note("event: custom")
				w.mq.event("event.test.model", "custom", []byte(`{"n":1}`))
			case 1:
				zzvf.Tag("delete-event")
				w.mq.event("event.test.model", "delete", nil)
			case 2:
				zzvf.Tag("reaccess-event")
				if r.outstanding("test.model", "subscribe", "get", "new", "call") {
					zzvf.Tag("reaccess-while-request-outstanding")
				}
				w.mq.event("event.test.model", "reaccess", nil)
			}
		default:
			req := pend[a-firstAnswer]
			outs := vfOutcomes(req.subject, rich)
			o := outs[zzvf.Choose("outcome", len(outs))]
			if req.subject == "get.test.model" && o.label != "data" {
				zzvf.Tag("get-failed")
			}
			if len(req.subject) > 7 && req.subject[:7] == "access." && o.label != "grant" {
				zzvf.Tag("access-not-granted")
			}
			zzvf.Note("service: " + req.subject + " -> " + o.label)
			r.answer(req, o)
		}
		w.settle()
		frames := r.observe()
		if checkC08 {
			vfCheckUnsubscribeResults(r, frames)
		}
		if atLimit {
			// (responses of one batch are applied in order, so the count
			// is judged after each batch: it never exceeds the limit)
			zzvf.Reach("mixes-at-limit")
			zzvf.Assert(r.count["test.model"] <= SubscriptionCountLimit, "direct-subscriptions-never-exceed-the-limit")
		}
	}
	zzvf.Assert(vfQuiescent(w), "run-reaches-quiescence")
	zzvf.Reach("mixes-quiescent")
	if checkC07 {
		for _, it := range r.issued {
			zzvf.Assert(it.responses >= 1, "every-request-gets-a-response")
			zzvf.Assert(it.responses <= 1, "no-request-gets-two-responses")
		}
	}
	if checkC08 {
		for _, rid := range []string{"test.model", "test.parent", "test.collection"} {
			zzvf.Assert(r.directCount(rid) == r.count[rid], "direct-count-equals-protocol-count")
		}
	}
}

// vfCheckUnsubscribeResults: an unsubscribe request succeeds exactly when
// its count does not exceed the protocol-level number at that moment.
func vfCheckUnsubscribeResults(r *vfRun, frames []vfFrame) {
	for _, fr := range frames {
		if fr.ID == nil {
			continue
		}
		it := r.findIssued(*fr.ID)
		if it == nil || it.kind.verb != "unsubscribe" {
			continue
		}
		// r.count was already updated by observe for a success
		before := r.count[it.kind.rid]
		if it.ok {
			before += it.kind.count
		}
		if it.kind.count <= before {
			zzvf.Assert(it.ok, "unsubscribe-succeeds-when-count-within-subscriptions")
		} else {
			zzvf.Assert(!it.ok && it.errCode == "system.noSubscription", "unsubscribe-fails-with-noSubscription")
			if it.ok {
				// (known finding, the run continues) the gateway let the
				// unsubscribe consume a request still in flight, which
				// will now fail: adopt its view
				if r.count[it.kind.rid] < 0 {
					r.count[it.kind.rid] = 0
				}
			}
		}
	}
}

func VF_C07_L1_Mixes() { vfMixes(true, false) }
func VF_C08_L1_Mixes() { vfMixes(false, true) }

// VF_C03_L2_Handover: the request mixes with service events, checking that
// no event for a resource reaches the client before the response (or event)
// that first hands the resource over.
func VF_C03_L2_Handover() { vfMixes(false, false, true) }
