//go:build verif

package server

import (
	"encoding/json"
	"strings"

	"github.com/resgateio/resgate/server/rescache"
	"github.com/resgateio/resgate/zzvf"
)

func init() {
	zzvf.Register("VF_C09_L1_Lifecycle", VF_C09_L1_Lifecycle)
	zzvf.Register("VF_C11_L1_Disconnect", VF_C11_L1_Disconnect)
}

// VF_C11_L1_Disconnect is the lifecycle run with the disconnect-specific
// assertions switched on.
func VF_C11_L1_Disconnect() { vfLifecycle(true) }

func VF_C09_L1_Lifecycle() { vfLifecycle(false) }

// vfCheckDisconnected: everything held for a closed connection is released
// and nothing new is requested on its behalf.
func vfCheckDisconnected(w *vfWorld, r *vfRun, discMark int) {
	c := r.cl.c
	zzvf.Reach("c11-disconnected")
	zzvf.Assert(c.subs == nil, "closed-connection-holds-no-subscriptions")
	_, inServ := w.s.conns[c.cid]
	zzvf.Assert(!inServ, "closed-connection-removed-from-service")
	zzvf.Assert(!rescache.VFHasConn(w.s.cache, c.cid), "closed-connection-removed-from-token-reset-fanout")
	zzvf.Assert(w.mq.activeSub("conn."+c.cid) == nil, "closed-connection-event-subscription-released")
	for _, q := range w.mq.reqs[discMark:] {
		var p struct {
			CID string `json:"cid"`
		}
		if json.Unmarshal(q.payload, &p) == nil && p.CID == c.cid {
			zzvf.Assert(false, "no-request-on-behalf-of-closed-connection")
		}
	}
}

var vfLongName = "test." + strings.Repeat("a", 4100)

var vfLifeKinds = []vfReqKind{
	{method: "subscribe.test.model", verb: "subscribe", rid: "test.model"},
	{method: "unsubscribe.test.model", verb: "unsubscribe", rid: "test.model", count: 1},
	{method: "get.test.model", verb: "get", rid: "test.model"},
	{method: "call.test.model.method", verb: "call", rid: "test.model"},
	{method: "subscribe." + vfLongName, verb: "subscribe", rid: vfLongName},
	{method: "subscribe.test.parent", verb: "subscribe", rid: "test.parent"},
	{method: "unsubscribe.test.parent", verb: "unsubscribe", rid: "test.parent", count: 1},
}

// vfCheckCacheInvariant: the use count of every cache entry equals its
// users (registered subscribers + service requests in flight for it), an
// entry waits for eviction iff its count is zero, and an entry that has
// requested or holds data has a live event subscription.
func vfCheckCacheInvariant(w *vfWorld) {
	zero := 0
	for _, e := range rescache.VFEntries(w.s.cache) {
		inflight := 0
		for _, q := range w.mq.pending() {
			i := strings.IndexByte(q.subject, '.')
			typ, rest := q.subject[:i], q.subject[i+1:]
			switch typ {
			case "access":
				if rest == e.Name {
					inflight++
				}
			case "call", "auth":
				if j := strings.LastIndexByte(rest, '.'); j >= 0 && rest[:j] == e.Name {
					inflight++
				}
			}
		}
		if e.Count < 0 {
			zzvf.Tag("negative-use-count")
		}
		if e.Count > int64(e.Subs+inflight) {
			zzvf.Tag("use-count-too-high")
		}
		zzvf.Assert(e.Count == int64(e.Subs+inflight), "use-count-equals-users")
		if e.Count == 0 {
			zero++
		}
		if e.Subs > 0 || e.Base >= 2 {
			zzvf.Assert(e.HasMQSub && w.mq.activeSub("event."+e.Name) != nil, "cached-or-requested-resource-has-live-event-subscription")
		}
	}
	zzvf.Assert(rescache.VFEvictionQueueLen(w.s.cache) == zero, "entry-awaits-eviction-iff-unused")
	// the cache gauges follow the entries: one resource per entry, one
	// subscription per use (so both read zero once nothing is held)
	entries, uses := 0, int64(0)
	for _, e := range rescache.VFEntries(w.s.cache) {
		entries++
		uses += e.Count
	}
	zzvf.Assert(w.gauges.CacheResources.Value() == float64(entries), "cache-resources-gauge-equals-entries")
	zzvf.Assert(w.gauges.CacheSubscriptions.Value() == float64(uses), "cache-subscriptions-gauge-equals-uses")
	// a connection keeps a subscription object (and with it a use of the
	// cache entry) only while something counts on it: a direct subscription,
	// a request in flight, or a reference from another held resource
	for _, cl := range w.clients {
		for rid, s := range cl.c.subs {
			if s.direct+s.indirect+s.indirectsent <= 0 {
				zzvf.Note("connection " + cl.c.cid + " keeps " + rid + " with no direct or indirect count")
			}
			zzvf.Assert(s.direct+s.indirect+s.indirectsent > 0, "no-subscription-object-kept-without-a-holder")
		}
	}
}

// vfCheckSubscribeBeforeGet: every get request was sent while an event
// subscription for that resource, established earlier, was live.
func vfCheckSubscribeBeforeGet(w *vfWorld) {
	live := map[string]bool{}
	for _, l := range w.mq.log {
		switch l[0] {
		case 'S':
			live[l[2:]] = true
		case 'U':
			live[l[2:]] = false
		case 'R':
			if strings.HasPrefix(l[2:], "get.") {
				zzvf.Reach("c09-get-request")
				zzvf.Assert(live["event."+l[6:]], "get-only-under-established-event-subscription")
			}
		}
	}
}

// VF_C09_L1_Lifecycle: subscribe / unsubscribe / get / call / disconnect on
// one or two connections, every outcome (get error, delete event,
// subject-too-long), eviction timer firing at any step.
func vfLifecycle(c11 bool) {
	nconn := zzvf.Param("conns")
	discMark := -1
	w := vfNewWorld(Config{})
	var runs []*vfRun
	for i := 0; i < nconn; i++ {
		cl := w.connect("cid"+string(rune('A'+i)), versionLatest)
		runs = append(runs, vfNewRun(w, cl))
	}
	kinds := []vfReqKind{vfLifeKinds[zzvf.Param("k0")]}
	if k1 := zzvf.Param("k1"); k1 >= 0 {
		kinds = append(kinds, vfLifeKinds[k1])
	}
	if k2 := zzvf.ParamOr("k2", -1); k2 >= 0 {
		kinds = append(kinds, vfLifeKinds[k2])
	}
	next := 0
	events := zzvf.Param("events")
	flushes := zzvf.Param("flushes")
	discs := zzvf.Param("disconnects")
	var lagged *vfClient
	lagBudget := zzvf.ParamOr("lagdisc", 0)
	var popped []interface{}
	justPopped := false
	zzvf.Reach("c09-start")
	for step := 0; step < 30; step++ {
		pend := w.mq.pending()
		pend = vfAnswerable(pend, next < len(kinds) || events > 0 || discs > 0, next < len(kinds))
		nact := 0
		issueAct, evAct, flushAct, discAct := -1, -1, -1, -1
		if next < len(kinds) {
			issueAct = nact
			nact++
		}
		if events > 0 && (w.mq.activeSub("event.test.model") != nil || (zzvf.ParamOr("reaccess", 0) == 1 && w.mq.activeSub("event.test.parent") != nil)) {
			evAct = nact
			nact++
		}
		if flushes > 0 && rescache.VFEvictionQueueLen(w.s.cache) > 0 {
			flushAct = nact
			nact++
		}
		if discs > 0 {
			discAct = nact
			nact++
		}
		// lagdisc: the worker of the last connection may become busy at any
		// moment (what is enqueued then queues up behind the current
		// callback) and go on at any later moment
		lagOnAct, lagOffAct := -1, -1
		if lagBudget > 0 && lagged == nil && !runs[len(runs)-1].disc {
			lagOnAct = nact
			nact++
		}
		if lagged != nil {
			lagOffAct = nact
			nact++
		}
		firstAnswer := nact
		nact += len(pend)
		if nact == 0 {
			break
		}
		a := zzvf.Choose("action", nact)
		switch {
		case a == lagOnAct:
			lagBudget--
			zzvf.Tag("worker-busy")
			zzvf.Note("worker of " + runs[len(runs)-1].cl.c.cid + " becomes busy")
			lagged = runs[len(runs)-1].cl
			w.lag(lagged, true)
		case a == lagOffAct:
			zzvf.Note("worker of " + lagged.c.cid + " goes on")
			w.lag(lagged, false)
			lagged = nil
		case a == issueAct:
			k := kinds[next]
			// requests alternate between the connections
			r := runs[next%nconn]
			next++
			if r.disc {
				break
			}
			m := k.method
			if len(m) > 60 {
				m = m[:60] + "..."
			}
			zzvf.Note("client " + r.cl.c.cid + ": " + m)
			if k.verb == "unsubscribe" && r.directCount(k.rid) > r.count[k.rid] {
				zzvf.Tag("unsub-while-inflight-count")
			}
			// a resource that is neither cached (loaded) nor being fetched
			// must be fetched anew for this request
			needFetch := false
			getsBefore := vfCountGets(w, k.rid)
			if _, held := r.cl.c.subs[k.rid]; !held && (k.verb == "subscribe" || k.verb == "get") && k.rid != vfLongName {
				// (a request on a resource the connection already holds a
				// subscription object for is served from that object)
				needFetch = !vfLoadedOrFetching(w, k.rid) && r.cl != lagged
			}
			r.issue(k)
			if needFetch {
				w.settle()
				zzvf.Reach("c09-fetch-anew")
				zzvf.Assert(vfCountGets(w, k.rid) == getsBefore+1, "uncached-resource-is-fetched-anew")
			}
		case a == evAct:
			events--
			if ek := zzvf.Choose("event", 2+zzvf.ParamOr("reaccess", 0)); ek == 2 {
				zzvf.Note("event: reaccess on test.parent")
				w.mq.event("event.test.parent", "reaccess", nil)
			} else if ek == 0 {
				zzvf.Note("event: delete")
				zzvf.Tag("delete-event")
				w.mq.event("event.test.model", "delete", nil)
			} else {
				zzvf.Note("event: custom")
				w.mq.event("event.test.model", "custom", []byte(`{}`))
			}
		case a == flushAct:
			flushes--
			// splitflush: the timer goroutine has taken the entry off the
			// queue, but its callback runs only after the next external
			// action (it waits for the cache lock meanwhile)
			if zzvf.ParamOr("splitflush", 0) == 1 && zzvf.Choose("timer-callback-delayed", 2) == 1 {
				zzvf.Note("eviction timer fires, callback delayed")
				zzvf.Tag("eviction-callback-delayed")
				popped = rescache.VFPopEvictions(w.s.cache)
				justPopped = true
			} else {
				zzvf.Note("eviction timer fires")
				rescache.VFFlushEvictions(w.s.cache)
			}
		case a == discAct:
			discs--
			r := runs[len(runs)-1]
			if !r.disc {
				zzvf.Note("disconnect " + r.cl.c.cid)
				r.disc = true
				if c11 {
					// whatever is requested with this cid from the moment the
					// dispose runs is requested for a closed connection
					w.disconnect(r.cl, func() { discMark = len(w.mq.reqs) })
				} else {
					w.disconnect(r.cl)
				}
			}
		default:
			req := pend[a-firstAnswer]
			outs := vfOutcomes(req.subject, false)
			o := outs[zzvf.Choose("outcome", len(outs))]
			sj := req.subject
			if len(sj) > 60 {
				sj = sj[:60] + "..."
			}
			zzvf.Note("service: " + sj + " -> " + o.label)
			runs[0].answer(req, o)
		}
		w.settle()
		if popped != nil && !justPopped {
			zzvf.Note("delayed eviction callback runs")
			for _, v := range popped {
				rescache.VFFireEviction(w.s.cache, v)
			}
			popped = nil
			w.settle()
		}
		justPopped = false
		for _, r := range runs {
			r.observe()
		}
		if lagged == nil && popped == nil {
			vfCheckCacheInvariant(w)
		}
	}
	if popped != nil {
		for _, v := range popped {
			rescache.VFFireEviction(w.s.cache, v)
		}
		popped = nil
		w.settle()
	}
	if lagged != nil {
		w.lag(lagged, false)
		lagged = nil
		w.settle()
	}
	if c11 && discMark >= 0 {
		last := runs[len(runs)-1]
		vfCheckDisconnected(w, last, discMark)
		if nconn == 2 {
			// the other connection is unaffected: still registered, every
			// request of it answered exactly once
			other := runs[0]
			_, ok := w.s.conns[other.cl.c.cid]
			zzvf.Assert(ok && other.cl.c.subs != nil, "other-connection-unaffected")
			for _, it := range other.issued {
				zzvf.Assert(it.responses == 1, "other-connection-requests-answered-once")
			}
		}
	}
	zzvf.Assert(vfQuiescent(w), "run-reaches-quiescence")
	vfCheckSubscribeBeforeGet(w)
	// everybody leaves, the eviction delay passes
	for _, r := range runs {
		if !r.disc {
			r.disc = true
			w.disconnect(r.cl)
		}
	}
	w.settle()
	for i := 0; i < 6 && len(w.mq.pending()) > 0; i++ {
		for _, q := range w.mq.pending() {
			outs := vfOutcomes(q.subject, false)
			runs[0].answer(q, outs[0])
		}
		w.settle()
	}
	vfCheckCacheInvariant(w)
	rescache.VFFlushEvictions(w.s.cache)
	w.settle()
	zzvf.Reach("c09-all-gone")
	ents := rescache.VFEntries(w.s.cache)
	if len(ents) > 0 {
		zzvf.Tag("entry-left:" + ents[0].Name[:10])
		zzvf.Note("entry left: count=" + vfItoa(uint64(ents[0].Count)) + " subs=" + vfItoa(uint64(ents[0].Subs)) + " queued=" + vfItoa(uint64(ents[0].Queued)) + " evq=" + vfItoa(uint64(rescache.VFEvictionQueueLen(w.s.cache))))
	}
	zzvf.Assert(len(ents) == 0, "no-cache-entry-left-without-users")
	zzvf.Assert(rescache.VFEvictionQueueLen(w.s.cache) == 0, "eviction-queue-empty")
	for _, s := range w.mq.subs {
		if !s.unsub && strings.HasPrefix(s.ns, "event.") {
			zzvf.Assert(false, "no-resource-event-subscription-left")
		}
		if !s.unsub && strings.HasPrefix(s.ns, "conn.") {
			zzvf.Assert(false, "no-connection-event-subscription-left")
		}
	}
	zzvf.Assert(rescache.VFConns(w.s.cache) == 0 && len(w.s.conns) == 0, "no-connection-registered")
}

func vfCountGets(w *vfWorld, name string) int {
	n := 0
	for _, l := range w.mq.log {
		if l == "R get."+name {
			n++
		}
	}
	return n
}

// vfLoadedOrFetching: the cache holds the resource's data, or a get request
// for it is unanswered.
func vfLoadedOrFetching(w *vfWorld, name string) bool {
	for _, q := range w.mq.pending() {
		if q.subject == "get."+name {
			return true
		}
	}
	for _, e := range rescache.VFEntries(w.s.cache) {
		if e.Name == name && e.Base >= 3 {
			return true
		}
	}
	return false
}
