//go:build verif

package server

import (
	"encoding/json"
	"time"

	"github.com/gorilla/websocket"
	"github.com/resgateio/resgate/zzvf"
)

func init() {
	zzvf.Register("VF_C07_L2_Listen", VF_C07_L2_Listen)
}

var vfListenKinds = []vfReqKind{
	{method: "version", params: `{"protocol":"1.2.1"}`, verb: "version"},
	{method: "subscribe.test.model", verb: "subscribe", rid: "test.model"},
	{method: "get.test.other", verb: "get", rid: "test.other"},
	{method: "unsubscribe.test.model", verb: "unsubscribe", rid: "test.model", count: 1},
	{method: "call.test.model.set", params: `{"x":1}`, verb: "call", rid: "test.model"},
	{method: "bogus", verb: "bogus"},
}

// VF_C07_L2_Listen: client frames travel through the real read loop
// (wsConn.listen) instead of being enqueued by the harness: n pipelined
// frames, the connection worker running or not between any two reads, every
// request kind per frame; the service answers oldest first. Each request
// must get exactly one reply, with the reply that belongs to its kind; then
// the peer closes the socket and the loop must dispose the connection.
func VF_C07_L2_Listen() {
	n := zzvf.Param("frames")
	w := vfNewWorld(Config{})
	cl := w.connect("cidA", versionLatest)
	c := cl.c
	r := vfNewRun(w, cl)
	var frames [][]byte
	for i := 0; i < n; i++ {
		k := vfListenKinds[zzvf.Choose("kind", len(vfListenKinds))]
		id := cl.nextID
		cl.nextID++
		f := `{"id":` + vfItoa(id) + `,"method":` + vfQuote(k.method)
		if k.params != "" {
			f += `,"params":` + k.params
		}
		f += `}`
		frames = append(frames, []byte(f))
		r.issued = append(r.issued, &vfIssued{id: id, kind: k, atFrame: -1})
	}
	zzvf.Reach("listen-start")
	fed := 0
	closing := false
	queued := func() int {
		c.mu.Lock()
		defer c.mu.Unlock()
		return len(c.queue)
	}
	if zzvf.Symbolic() {
		zzvf.WSReader(c.ws, func() ([]byte, int) {
			if closing {
				return nil, 2
			}
			// the worker may get to run between two reads
			if fed > 0 && queued() > 0 && zzvf.Choose("worker-runs", 2) == 1 {
				w.settle()
			}
			if fed == len(frames) {
				return nil, 1
			}
			f := frames[fed]
			fed++
			return f, 0
		})
		zzvf.RunUntilBlocked(func() { c.listen(c.ws) }, func() bool { return true })
	} else {
		go c.listen(c.ws)
		for fed < len(frames) {
			if fed > 0 && queued() > 0 && zzvf.Choose("worker-runs", 2) == 1 {
				w.settle()
			}
			n0 := queued()
			cl.sink.peer.WriteMessage(websocket.TextMessage, frames[fed])
			fed++
			for k := 0; k < 200 && queued() <= n0; k++ {
				time.Sleep(100 * time.Microsecond)
			}
		}
		if queued() > 0 && zzvf.Choose("worker-runs", 2) == 1 {
			w.settle()
		}
	}
	zzvf.Assert(fed == len(frames), "harness-all-frames-read")
	w.settle()
	// the service answers, oldest request first
	for step := 0; step < 20; step++ {
		pend := w.mq.pending()
		if len(pend) == 0 {
			break
		}
		req := pend[0]
		outs := vfOutcomes(req.subject, false)
		r.answer(req, outs[zzvf.Choose("outcome", len(outs))])
		w.settle()
	}
	zzvf.Assert(vfQuiescent(w), "run-reaches-quiescence")
	for _, fr := range r.observe() {
		if fr.ID == nil {
			continue
		}
		it := r.findIssued(*fr.ID)
		if it == nil {
			continue
		}
		// the reply belongs to the request with that id
		switch it.kind.verb {
		case "version":
			var res struct {
				Protocol string `json:"protocol"`
			}
			ok := fr.Error == nil && json.Unmarshal(fr.Result, &res) == nil && res.Protocol != ""
			zzvf.Assert(ok, "version-request-gets-the-version-reply")
		case "bogus":
			zzvf.Assert(fr.Error != nil && fr.Error.Code == "system.methodNotFound" || fr.Error != nil && fr.Error.Code == "system.invalidRequest", "unknown-method-gets-its-error")
		case "unsubscribe":
			zzvf.Assert(fr.Error != nil || string(fr.Result) == "null" || len(fr.Result) == 0, "unsubscribe-reply-has-no-payload")
		}
	}
	zzvf.Reach("listen-answered")
	for _, it := range r.issued {
		if it.responses != 1 {
			zzvf.Note("request " + vfItoa(it.id) + " (" + it.kind.method + ") got " + vfItoa(uint64(it.responses)) + " replies")
		}
		zzvf.Assert(it.responses == 1, "exactly-one-response-per-request")
	}
	// the peer closes the socket: the read loop disposes the connection
	closing = true
	if zzvf.Symbolic() {
		zzvf.RunUntilBlocked(func() { c.listen(c.ws) }, func() bool { return true })
	} else {
		cl.sink.peer.Close()
		for k := 0; k < 200 && queued() == 0 && !c.disposing; k++ {
			time.Sleep(100 * time.Microsecond)
		}
	}
	w.settle()
	zzvf.Assert(c.disposing && c.subs == nil, "read-error-disposes-the-connection")
	zzvf.Reach("listen-closed")
}
