//go:build verif

package server

import (
	"encoding/json"
	"strings"

	"github.com/resgateio/resgate/server/mq"
	"github.com/resgateio/resgate/server/rescache"
	"github.com/resgateio/resgate/zzvf"
)

func init() {
	zzvf.Register("VF_C13_L1_Query", VF_C13_L1_Query)
	zzvf.Register("VF_C15_L1_QueryMalformed", VF_C15_L1_QueryMalformed)
}

var vfQueryNorm = []string{"", "q=b", "q=n"} // "" = the requested query itself

func vfQueryOf(payload []byte) string {
	var p struct {
		Query string `json:"query"`
	}
	json.Unmarshal(payload, &p)
	return p.Query
}

// vfQuery: two query subscriptions on test.model (?q=a and ?q=b) on one or
// two connections, issued and answered in every order with every
// normalisation (same / the other query / a third one) or a failed get; then
// a query event, its query requests answered in every order with every
// outcome, a second query event at any moment.
func vfQuery(malformed bool) {
	nconn := zzvf.Param("conns")
	w := vfNewWorld(Config{})
	var runs []*vfRun
	for i := 0; i < nconn; i++ {
		cl := w.connect("cid"+string(rune('A'+i)), versionLatest)
		runs = append(runs, vfNewRun(w, cl))
	}
	rids := []string{"test.model?q=a", "test.model?q=b"}
	owner := []*vfRun{runs[0], runs[nconn-1]}
	norm := map[string]string{} // requested query -> normalized (after get answer)
	failed := map[string]bool{}
	next := 0
	zzvf.Reach("c13-start")
	// phase 1: subscribe both, all interleavings of issuing and answering
	for step := 0; step < 20; step++ {
		pend := vfAnswerable(w.mq.pending(), next < 2, false)
		nact := len(pend)
		issueAct := -1
		if next < 2 {
			issueAct = nact
			nact++
		}
		if nact == 0 {
			break
		}
		a := zzvf.Choose("action", nact)
		if a == issueAct {
			zzvf.Note("client: subscribe " + rids[next])
			owner[next].issue(vfReqKind{method: "subscribe." + rids[next], verb: "subscribe", rid: rids[next]})
			next++
		} else {
			req := pend[a]
			switch {
			case strings.HasPrefix(req.subject, "access."):
				w.mq.answer(req, []byte(`{"result":{"get":true}}`), nil)
			case strings.HasPrefix(req.subject, "get."):
				q := vfQueryOf(req.payload)
				k := zzvf.Choose("normalisation", len(vfQueryNorm)+1)
				if k == len(vfQueryNorm) {
					zzvf.Note("service: get ?" + q + " -> notFound")
					failed[q] = true
					w.mq.answer(req, vfErrPayload("system.notFound", "Not found"), nil)
					break
				}
				n := vfQueryNorm[k]
				if n == "" {
					n = q
				}
				norm[q] = n
				if len(w.mq.pending()) > 1 {
					zzvf.Tag("aliasing-gets-in-flight")
				}
				zzvf.Note("service: get ?" + q + " -> model, normalised to ?" + n)
				w.mq.answer(req, []byte(`{"result":{"model":{"string":"foo"},"query":"`+n+`"}}`), nil)
			}
		}
		w.settle()
		for _, r := range runs {
			r.observe()
		}
	}
	zzvf.Assert(vfQuiescent(w), "run-reaches-quiescence")
	for _, r := range runs {
		for _, it := range r.issued {
			zzvf.Assert(it.responses == 1, "every-query-subscribe-gets-exactly-one-response")
		}
	}
	// the normalised query each established subscription ended up on
	distinct := map[string]bool{}
	for i, rid := range rids {
		q := rid[len("test.model?"):]
		if owner[i].count[rid] != 1 {
			failed[q] = true
			continue
		}
		failed[q] = false
		sub := owner[i].cl.c.subs[rid]
		zzvf.Assert(sub != nil && sub.resourceSub != nil, "established-subscription-is-attached-to-a-cached-resource")
		norm[q] = rescache.VFQueryOf(sub.resourceSub)
		distinct[norm[q]] = true
	}
	if len(distinct) == 0 {
		return
	}
	zzvf.Reach("c13-loaded")
	// phase 2: query event
	mark := len(w.mq.reqs)
	w.mq.event("event.test.model", "query", []byte(`{"subject":"_QS_"}`))
	w.settle()
	var qreqs []*vfRequest
	for _, q := range w.mq.reqs[mark:] {
		zzvf.Assert(q.subject == "_QS_", "query-request-goes-to-the-event-subject")
		qreqs = append(qreqs, q)
	}
	seen := map[string]int{}
	for _, q := range qreqs {
		seen[vfQueryOf(q.payload)]++
	}
	for n := range distinct {
		zzvf.Assert(seen[n] == 1, "one-query-request-per-distinct-normalised-query")
	}
	zzvf.Assert(len(qreqs) == len(distinct), "no-query-request-for-anything-else")
	// second query event arrives at some point while the first is handled
	second := 1
	answered := map[string]string{}
	for step := 0; step < 12; step++ {
		pend := vfAnswerable(w.mq.pending(), second > 0, false)
		nact := len(pend)
		evAct := -1
		if second > 0 {
			evAct = nact
			nact++
		}
		if nact == 0 {
			break
		}
		a := zzvf.Choose("action2", nact)
		if a == evAct {
			second--
			firstOutstanding := false
			for _, q := range qreqs {
				if !q.answered {
					firstOutstanding = true
				}
			}
			before := len(w.mq.reqs)
			zzvf.Note("event: second query event")
			w.mq.event("event.test.model", "query", []byte(`{"subject":"_QS2_"}`))
			w.settle()
			if firstOutstanding {
				zzvf.Reach("c13-locked")
				zzvf.Assert(len(w.mq.reqs) == before, "no-later-event-handled-before-all-query-requests-are-answered")
			}
		} else {
			req := pend[a]
			n := vfQueryOf(req.payload)
			if req.subject == "_QS2_" {
				w.mq.answer(req, []byte(`{"result":{"events":[]}}`), nil)
			} else {
				outs := 6
				if malformed {
					outs = 9
				}
				switch zzvf.Choose("query-outcome", outs) {
				case 0:
					answered[n] = "change"
					w.mq.answer(req, []byte(`{"result":{"events":[{"event":"change","data":{"values":{"string":"bar"}}}]}}`), nil)
				case 1:
					answered[n] = "change"
					w.mq.answer(req, []byte(`{"result":{"model":{"string":"bar"}}}`), nil)
				case 2:
					answered[n] = "delete"
					w.mq.answer(req, vfErrPayload("system.notFound", "Not found"), nil)
				case 3:
					answered[n] = "none"
					w.mq.answer(req, vfErrPayload("system.internalError", "Internal"), nil)
				case 4:
					answered[n] = "none"
					w.mq.answer(req, nil, mq.ErrRequestTimeout)
				case 5:
					// the full model, now empty: the property is deleted
					answered[n] = "change"
					w.mq.answer(req, []byte(`{"result":{"model":{}}}`), nil)
				case 6:
					answered[n] = "none"
					zzvf.Tag("null-event-in-query-response")
					w.mq.answer(req, []byte(`{"result":{"events":[null]}}`), nil)
				case 7:
					answered[n] = "none"
					w.mq.answer(req, []byte(`{"result":{"collection":[1,2]}}`), nil)
				case 8:
					answered[n] = "none"
					w.mq.answer(req, []byte(`{"result":{"events":[{"event":"change","data":{"values":{"string":{"rid":"a..b"}}}},{"event":"add","data":{"idx":-1,"value":1}}]}}`), nil)
				}
				zzvf.Note("service: query request ?" + n + " -> " + answered[n])
			}
		}
		w.settle()
	}
	zzvf.Assert(vfQuiescent(w), "run-reaches-quiescence")
	zzvf.Reach("c13-answered")
	// processing resumed: the second query event produced its requests
	got2 := 0
	for _, q := range w.mq.reqs {
		if q.subject == "_QS2_" {
			got2++
		}
	}
	// (a delete answer removes that query resource)
	want2 := 0
	for n := range distinct {
		if answered[n] != "delete" {
			want2++
		}
	}
	zzvf.Assert(got2 == want2, "processing-resumes-after-the-last-query-answer")
	// every subscriber got exactly the event derived for its query, under its own rid
	for i, rid := range rids {
		q := rid[len("test.model?"):]
		if failed[q] {
			continue
		}
		want := answered[norm[q]]
		changes, deletes := 0, 0
		for _, f := range owner[i].w.newFrames(owner[i].cl) {
			fr := vfParseFrame(f)
			if fr.Event == rid+".change" {
				changes++
			}
			if fr.Event == rid+".delete" {
				deletes++
			}
		}
		// with one connection both rids share the frame list: re-scan all
		if nconn == 1 {
			changes, deletes = 0, 0
			for _, f := range owner[i].cl.frames {
				fr := vfParseFrame(f)
				if fr.Event == rid+".change" {
					changes++
				}
				if fr.Event == rid+".delete" {
					deletes++
				}
			}
		}
		switch want {
		case "change":
			zzvf.Assert(changes == 1 && deletes == 0, "subscriber-gets-the-change-derived-for-its-query-under-its-own-rid")
		case "delete":
			zzvf.Assert(deletes == 1 && changes == 0, "subscriber-gets-delete-on-notFound")
		default:
			zzvf.Assert(changes == 0 && deletes == 0, "no-event-derived-from-a-failed-or-malformed-answer")
		}
	}
}

func VF_C13_L1_Query()          { vfQuery(false) }
func VF_C15_L1_QueryMalformed() { vfQuery(true) }

func init() {
	zzvf.Register("VF_C13_L2_QueryConverge", VF_C13_L2_QueryConverge)
}

// VF_C13_L2_QueryConverge: two query subscriptions and two query events in
// every order (a subscription may start before, between or after the
// events); the service state changes with each query event and every answer
// (get, query request) reports the state at that moment. At quiescence every
// established subscriber's local copy - built from its subscribe response and
// the change events under its own rid - equals the service state.
func VF_C13_L2_QueryConverge() {
	nconn := zzvf.Param("conns")
	w := vfNewWorld(Config{})
	var runs []*vfRun
	for i := 0; i < nconn; i++ {
		cl := w.connect("cid"+string(rune('A'+i)), versionLatest)
		runs = append(runs, vfNewRun(w, cl))
	}
	rids := []string{"test.model?q=a", "test.model?q=b"}
	owner := []*vfRun{runs[0], runs[nconn-1]}
	svc := "v0"
	evVal := map[string]string{"_QS1_": "", "_QS2_": ""}
	next, events := 0, 0
	copyOf := map[string]string{}
	zzvf.Reach("c13l2-start")
	for step := 0; step < 30; step++ {
		pend := vfAnswerable(w.mq.pending(), next < 2 || events < 2, false)
		nact := len(pend)
		issueAct, evAct := -1, -1
		if next < 2 {
			issueAct = nact
			nact++
		}
		if events < 2 && w.mq.activeSub("event.test.model") != nil {
			evAct = nact
			nact++
		}
		if nact == 0 {
			break
		}
		a := zzvf.Choose("action", nact)
		switch {
		case a == issueAct:
			zzvf.Note("client: subscribe " + rids[next])
			owner[next].issue(vfReqKind{method: "subscribe." + rids[next], verb: "subscribe", rid: rids[next]})
			next++
		case a == evAct:
			events++
			svc = "v" + vfItoa(uint64(events))
			subj := "_QS" + vfItoa(uint64(events)) + "_"
			evVal[subj] = svc
			zzvf.Note("event: query event " + subj + ", service state " + svc)
			w.mq.event("event.test.model", "query", []byte(`{"subject":"`+subj+`"}`))
		default:
			req := pend[a]
			switch {
			case strings.HasPrefix(req.subject, "access."):
				w.mq.answer(req, []byte(`{"result":{"get":true}}`), nil)
			case strings.HasPrefix(req.subject, "get."):
				q := vfQueryOf(req.payload)
				n := vfQueryNorm[zzvf.Choose("normalisation", len(vfQueryNorm))]
				if n == "" {
					n = q
				}
				zzvf.Note("service: get ?" + q + " -> " + svc + ", normalised to ?" + n)
				w.mq.answer(req, []byte(`{"result":{"model":{"string":"`+svc+`"},"query":"`+n+`"}}`), nil)
			default:
				v := evVal[req.subject]
				zzvf.Note("service: query request " + req.subject + " ?" + vfQueryOf(req.payload) + " -> " + v)
				if zzvf.Choose("query-answer-form", 2) == 0 {
					w.mq.answer(req, []byte(`{"result":{"events":[{"event":"change","data":{"values":{"string":"`+v+`"}}}]}}`), nil)
				} else {
					w.mq.answer(req, []byte(`{"result":{"model":{"string":"`+v+`"}}}`), nil)
				}
			}
		}
		w.settle()
		// apply the frames of every client to its local copies
		for _, r := range runs {
			for _, fr := range r.observe() {
				if fr.ID != nil {
					if fr.Error == nil {
						m, _, _ := vfResourceSet(fr.Result)
						for rid, raw := range m {
							var mv struct {
								S string `json:"string"`
							}
							json.Unmarshal(raw, &mv)
							copyOf[r.cl.c.cid+"|"+rid] = mv.S
						}
					}
					continue
				}
				for _, rid := range rids {
					if fr.Event == rid+".change" {
						var d struct {
							Values struct {
								S string `json:"string"`
							} `json:"values"`
						}
						json.Unmarshal(fr.Data, &d)
						key := r.cl.c.cid + "|" + rid
						_, held := copyOf[key]
						zzvf.Assert(held, "no-event-for-a-resource-the-client-does-not-hold")
						zzvf.Assert(d.Values.S > copyOf[key], "events-arrive-in-order")
						copyOf[key] = d.Values.S
					}
				}
			}
		}
	}
	zzvf.Assert(vfQuiescent(w), "run-reaches-quiescence")
	zzvf.Reach("c13l2-quiescent")
	for i, rid := range rids {
		if owner[i].count[rid] != 1 {
			continue
		}
		zzvf.Reach("c13l2-established")
		zzvf.Assert(copyOf[owner[i].cl.c.cid+"|"+rid] == svc, "query-subscriber-converges-to-the-service-state")
	}
	// tail: the first subscription leaves and comes back. If nobody else is
	// on its normalised query, that query resource is dropped and must be
	// fetched anew (its alias must not resolve to the dropped resource).
	if zzvf.ParamOr("resub", 0) == 1 && owner[0].count[rids[0]] == 1 && owner[1].count[rids[1]] == 1 {
		s0, s1 := owner[0].cl.c.subs[rids[0]], owner[1].cl.c.subs[rids[1]]
		shared := s0 != nil && s1 != nil && s0.resourceSub == s1.resourceSub
		byDisconnect := nconn == 2 && zzvf.Choose("leave-by-disconnect", 2) == 1
		if byDisconnect {
			zzvf.Note("client A disconnects")
			w.disconnect(owner[0].cl)
		} else {
			owner[0].issue(vfReqKind{method: "unsubscribe." + rids[0], verb: "unsubscribe", rid: rids[0], count: 1})
		}
		w.settle()
		if shared {
			// the other subscription still uses the shared query resource:
			// a query event is followed by one query request for it and
			// its answer reaches the remaining subscriber
			zzvf.Reach("c13l2-shared-after-leave")
			before := len(w.mq.reqs)
			w.mq.event("event.test.model", "query", []byte(`{"subject":"_QS3_"}`))
			w.settle()
			qreqs := 0
			for _, q := range w.mq.reqs[before:] {
				if q.subject == "_QS3_" {
					qreqs++
				}
			}
			zzvf.Assert(qreqs == 1, "shared-query-resource-kept-while-another-subscriber-uses-it")
			svc = "v3"
			for _, q := range w.mq.pending() {
				if q.subject == "_QS3_" {
					w.mq.answer(q, []byte(`{"result":{"model":{"string":"v3"}}}`), nil)
				}
			}
			w.settle()
			got := false
			for _, fr := range owner[1].observe() {
				if fr.Event == rids[1]+".change" {
					got = true
				}
			}
			zzvf.Assert(got, "remaining-subscriber-still-updated")
		}
		if byDisconnect {
			for _, r := range runs[1:] {
				for _, it := range r.issued {
					zzvf.Assert(it.responses <= 1, "no-request-answered-twice")
				}
			}
			return
		}
		gets := 0
		for _, l := range w.mq.log {
			if l == "R get.test.model" {
				gets++
			}
		}
		owner[0].issue(vfReqKind{method: "subscribe." + rids[0], verb: "subscribe", rid: rids[0]})
		w.settle()
		gets2 := 0
		for _, l := range w.mq.log {
			if l == "R get.test.model" {
				gets2++
			}
		}
		zzvf.Reach("c13l2-resubscribed")
		if !shared {
			zzvf.Assert(gets2 == gets+1, "dropped-query-resource-is-fetched-anew")
		}
		for i := 0; i < 6; i++ {
			pend := w.mq.pending()
			if len(pend) == 0 {
				break
			}
			q := pend[0]
			if strings.HasPrefix(q.subject, "access.") {
				w.mq.answer(q, []byte(`{"result":{"get":true}}`), nil)
			} else {
				w.mq.answer(q, []byte(`{"result":{"model":{"string":"`+svc+`"},"query":"`+vfQueryOf(q.payload)+`"}}`), nil)
			}
			w.settle()
		}
		for _, r := range runs {
			for _, it := range r.issued {
				zzvf.Assert(it.responses <= 1, "no-request-answered-twice")
			}
			r.observe()
		}
		for _, it := range owner[0].issued {
			zzvf.Assert(it.responses == 1, "resubscription-is-answered")
		}
	}
}
