//go:build verif

package server

import (
	"encoding/json"
	"strings"

	"github.com/resgateio/resgate/zzvf"
)

func init() {
	zzvf.Register("VF_C06_L1_Revocation", VF_C06_L1_Revocation)
}

// vfEstablish performs a complete, granted subscribe of rid (no branching).
func vfEstablish(w *vfWorld, r *vfRun, rid string) {
	r.issue(vfReqKind{method: "subscribe." + rid, verb: "subscribe", rid: rid})
	w.settle()
	for i := 0; i < 8; i++ {
		pend := w.mq.pending()
		if len(pend) == 0 {
			break
		}
		outs := vfOutcomes(pend[0].subject, false)
		r.answer(pend[0], outs[0])
		w.settle()
	}
	r.observe()
	zzvf.Assert(r.count[rid] >= 1, "harness-established-subscription")
}

// VF_C06_L1_Revocation: test.model is directly subscribed (dsubs times;
// optionally also held through test.parent). Then a stream of K numbered
// custom events with one or two revocation triggers and the verdicts at every
// position.
func VF_C06_L1_Revocation() {
	K := zzvf.Param("events")
	ntrig := zzvf.Param("triggers")
	dsubs := zzvf.Param("dsubs")
	indirect := zzvf.Param("indirect") == 1
	w := vfNewWorld(Config{})
	cl := w.connect("cidA", versionLatest)
	r := vfNewRun(w, cl)
	// the connection has a token from the start
	w.mq.event("conn.cidA", "token", []byte(`{"token":{"user":"t0"},"tid":"tid1"}`))
	w.settle()
	token := `{"user":"t0"}`
	if indirect {
		vfEstablish(w, r, "test.parent")
	}
	for i := 0; i < dsubs; i++ {
		vfEstablish(w, r, "test.model")
	}
	seenReqs := len(w.mq.reqs)
	zzvf.Reach("c06-established")

	sent := 0         // events emitted by the service
	delivered := 0    // highest event number delivered to the client
	awaiting := false // a trigger was processed and its verdict is not known yet
	barrier := 0      // events numbered above this must wait for the verdict
	unsubscribed := false
	tokN := 0
	accessAfterTrigger := true
	trigMark := 0 // number of service requests recorded when the last trigger arrived
	var lastVerdict string
	for step := 0; step < 30; step++ {
		pend := w.mq.pending()
		nact := 0
		evAct, trigAct := -1, -1
		if sent < K {
			evAct = nact
			nact++
		}
		if ntrig > 0 {
			trigAct = nact
			nact++
		}
		firstAnswer := nact
		nact += len(pend)
		if nact == 0 {
			break
		}
		a := zzvf.Choose("action", nact)
		switch {
		case a == evAct:
			sent++
			zzvf.Note("event: custom " + vfItoa(uint64(sent)))
			w.mq.event("event.test.model", "custom", []byte(`{"n":`+vfItoa(uint64(sent))+`}`))
		case a == trigAct:
			ntrig--
			trigMark = len(w.mq.reqs)
			if !unsubscribed {
				if !awaiting {
					barrier = sent
				}
				awaiting = true
				accessAfterTrigger = false
			}
			switch zzvf.Choose("trigger", 3) {
			case 0:
				tokN++
				token = `{"user":"t` + vfItoa(uint64(tokN)) + `"}`
				zzvf.Note("trigger: token event " + token)
				w.mq.event("conn.cidA", "token", []byte(`{"token":`+token+`,"tid":"tid1"}`))
			case 1:
				zzvf.Note("trigger: reaccess event")
				w.mq.event("event.test.model", "reaccess", nil)
			case 2:
				zzvf.Note("trigger: system reset access")
				w.mq.event("system", "reset", []byte(`{"access":["test.model.","other.*","test.model"]}`))
			}
		default:
			req := pend[a-firstAnswer]
			outs := vfOutcomes(req.subject, true)
			o := outs[zzvf.Choose("outcome", len(outs))]
			zzvf.Note("service: " + req.subject + " -> " + o.label)
			if req.subject == "access.test.model" {
				lastVerdict = o.label
				// the answer to a check that was requested after the last
				// trigger is the verdict the client was waiting for
				for qi, q := range w.mq.reqs {
					if q == req && qi >= trigMark && o.label == "grant" {
						awaiting = false
					}
				}
			}
			r.answer(req, o)
		}
		w.settle()
		// new access requests: current token, own cid
		for ; seenReqs < len(w.mq.reqs); seenReqs++ {
			req := w.mq.reqs[seenReqs]
			if !strings.HasPrefix(req.subject, "access.") {
				continue
			}
			var p struct {
				CID   string          `json:"cid"`
				Token json.RawMessage `json:"token"`
			}
			json.Unmarshal(req.payload, &p)
			zzvf.Assert(p.CID == "cidA" && string(p.Token) == token, "reaccess-request-carries-current-token")
			if req.subject == "access.test.model" {
				accessAfterTrigger = true
			}
		}
		// frames
		for _, fr := range r.observe() {
			if fr.ID != nil {
				continue
			}
			switch fr.Event {
			case "test.model.custom":
				var d struct {
					N int `json:"n"`
				}
				json.Unmarshal(fr.Data, &d)
				zzvf.Reach("c06-event-delivered")
				zzvf.Assert(!unsubscribed || indirect, "no-event-after-unsubscribe-event")
				zzvf.Assert(d.N == delivered+1, "events-in-order-without-gap")
				delivered = d.N
				if awaiting {
					zzvf.Assert(d.N <= barrier, "no-event-past-trigger-before-verdict")
				}
			case "test.model.unsubscribe":
				zzvf.Reach("c06-unsubscribe-event")
				unsubscribed = true
				awaiting = false
				var d struct {
					Reason struct {
						Code string `json:"code"`
					} `json:"reason"`
				}
				json.Unmarshal(fr.Data, &d)
				want := ""
				switch lastVerdict {
				case "deny", "accessDenied-error":
					want = "system.accessDenied"
				case "error":
					want = "system.custom"
				case "timeout":
					want = "system.timeout"
				case "missing-result":
					want = "system.internalError"
				case "noresponders":
					want = "system.notFound"
				}
				zzvf.Assert(lastVerdict != "grant" && lastVerdict != "", "unsubscribe-event-only-after-non-grant")
				zzvf.Assert(d.Reason.Code == want, "unsubscribe-event-carries-the-reason")
				zzvf.Assert(r.directCount("test.model") == 0, "revocation-removes-all-direct-subscriptions")
			}
		}
	}
	zzvf.Assert(vfQuiescent(w), "run-reaches-quiescence")
	zzvf.Reach("c06-end")
	if !unsubscribed {
		zzvf.Assert(accessAfterTrigger, "access-rerequested-after-trigger")
		zzvf.Assert(lastVerdict == "" || lastVerdict == "grant", "non-grant-verdict-unsubscribes")
		zzvf.Assert(delivered == sent, "all-events-delivered-after-grant")
		zzvf.Assert(r.directCount("test.model") == dsubs, "grant-keeps-subscriptions")
	}
}
