//go:build verif

package server

import (
	"net/http"
	"net/url"
	"strings"
	"time"

	"github.com/resgateio/resgate/zzvf"
)

func init() {
	zzvf.Register("VF_C17_L2_WSUpgrade", VF_C17_L2_WSUpgrade)
}

// VF_C17_L2_WSUpgrade: a WebSocket upgrade request through the real
// Service.wsHandler (gorilla's Upgrader included, up to the point where it
// would hijack the socket) against an origin allow-list, with or without
// wsHeaderAuth, the auth answer carrying a symbolic meta status. A request
// from an unlisted origin is refused with 403 before any service request is
// made for it; a direct-response status ends the upgrade with that status; in
// every case the connection object is disposed when the handler has ended
// without a socket.
func VF_C17_L2_WSUpgrade() {
	headerAuth := zzvf.Param("headerauth") == 1
	cfg := Config{APIPath: "/api/"}
	cfg.allowOrigin = []string{"http://allowed.example"}
	if headerAuth {
		ha := "auth.vault.login"
		cfg.WSHeaderAuth = &ha
		cfg.wsHeaderAuthRID = "auth.vault"
		cfg.wsHeaderAuthAction = "login"
	}
	w := vfNewWorld(cfg)
	w.s.initWSHandler()
	hdr := http.Header{
		"Connection":            {"keep-alive, Upgrade"},
		"Upgrade":               {"websocket"},
		"Sec-Websocket-Version": {"13"},
		"Sec-Websocket-Key":     {"dGhlIHNhbXBsZSBub25jZQ=="},
		"Cookie":                {"session=secret"},
	}
	originOK := true
	switch zzvf.Choose("origin", 4) {
	case 0:
	case 1:
		hdr["Origin"] = []string{"null"}
	case 2:
		hdr["Origin"] = []string{"HTTP://Allowed.Example"}
	case 3:
		hdr["Origin"] = []string{"http://evil.example"}
		originOK = false
	}
	rec := &vfRecorder{hdr: http.Header{}}
	req := &http.Request{Method: "GET", URL: &url.URL{Path: "/"}, Header: hdr, RemoteAddr: "127.0.0.1:9", RequestURI: "/", Host: "gateway.example"}
	zzvf.Reach("wsup-start")
	st, withMeta := 0, false
	answered := 0
	// play runs the other actors while the handler waits: the connection
	// worker, then the service answering the auth request
	play := func() bool {
		progress := false
		for _, c := range w.s.conns {
			known := false
			for _, cl := range w.clients {
				if cl.c == c {
					known = true
				}
			}
			if !known {
				w.clients = append(w.clients, &vfClient{c: c, nextID: 1})
				progress = true
			}
		}
		before := len(w.mq.reqs)
		w.settle()
		if len(w.mq.reqs) != before {
			progress = true
		}
		for _, q := range w.mq.pending() {
			progress = true
			answered++
			if !strings.HasPrefix(q.subject, "auth.") {
				zzvf.Assert(false, "only-the-auth-request-is-made-before-the-upgrade")
				w.mq.answer(q, []byte(`{"result":null}`), nil)
				continue
			}
			switch zzvf.Choose("auth-answer", 3) {
			case 0:
				w.mq.answer(q, []byte(`{"result":null}`), nil)
			case 1:
				w.mq.answer(q, vfErrPayload("system.accessDenied", "Access denied"), nil)
			case 2:
				withMeta = true
				st = zzvf.Int("status")
				zzvf.Assume(zzvf.And(st >= -1000, st <= 100000))
				p := vfJSON(struct {
					Status int                 `json:"status"`
					Header map[string][]string `json:"header"`
				}{st, map[string][]string{"Location": {"/elsewhere"}, "set-cookie": {"a=1"}}})
				w.mq.answer(q, append(append([]byte(`{"result":null,"meta":`), p...), '}'), nil)
			}
			w.settle()
		}
		return progress
	}
	finished := false
	zzvf.OnBlock(play)
	zzvf.RunUntilBlocked(func() { w.s.wsHandler(rec, req); finished = true }, func() bool { return true })
	zzvf.DropSpawned()
	for i := 0; i < 50; i++ {
		if !play() && (zzvf.Symbolic() || finished) {
			break
		}
		if !zzvf.Symbolic() {
			time.Sleep(2 * time.Millisecond)
		}
	}
	zzvf.OnBlock(nil)
	w.settle()
	zzvf.Assert(finished, "upgrade-handler-returns")
	zzvf.Assert(vfQuiescent(w), "run-reaches-quiescence")
	if !originOK {
		zzvf.Reach("wsup-forbidden")
		zzvf.Assert(rec.status == 403, "unlisted-origin-refused-with-403")
		zzvf.Assert(len(w.mq.reqs) == 0, "unlisted-origin-causes-no-service-traffic")
	} else {
		zzvf.Reach("wsup-allowed")
		if headerAuth {
			zzvf.Assert(answered == 1 && len(w.mq.reqs) == 1 && w.mq.reqs[0].subject == "auth.auth.vault.login", "exactly-one-header-auth-request")
		} else {
			zzvf.Assert(len(w.mq.reqs) == 0, "no-service-request-without-header-auth")
		}
		if withMeta && st >= 300 && st <= 599 {
			zzvf.Reach("wsup-direct")
			zzvf.Assert(rec.status == st, "direct-response-status-is-honoured")
		} else {
			// the recorder cannot be hijacked: gorilla answers 500 at the
			// point where the socket would be taken over
			zzvf.Assert(rec.status == 500, "upgrade-proceeds-to-the-socket-takeover")
		}
	}
	zzvf.Assert(rec.heads <= 1, "header-written-at-most-once")
	zzvf.Assert(len(w.s.conns) == 0, "connection-disposed-when-the-upgrade-ends-without-a-socket")
	for _, cl := range w.clients {
		zzvf.Assert(w.mq.activeSub("conn."+cl.c.cid) == nil, "connection-subscription-released")
		zzvf.Assert(cl.c.subs == nil, "connection-subscriptions-disposed")
	}
	zzvf.Assert(len(w.clients) == 1, "one-connection-object-per-upgrade-request")
}
