//go:build verif

package server

// Reference client: a protocol-following RES client (protocol >= 1.2.1)
// that applies the gateway's frames in order to a local store and flags
// everything C02 forbids. It is plain harness code and runs identically under
// the engine and natively.

import (
	"encoding/json"
	"sort"
	"strings"

	"github.com/resgateio/resgate/zzvf"
)

type vfRes struct {
	typ    byte // 'm' model, 'c' collection, 'e' error
	model  map[string]string
	col    []string
	events int // state/custom events applied since the resource was handed over
}

type vfRefClient struct {
	store  map[string]*vfRes
	direct map[string]int
	// pending counts the client's own unanswered subscribe requests per rid:
	// a client does not discard a resource it has just asked for
	pending map[string]int
	log     []string
}

func vfNewRefClient() *vfRefClient {
	return &vfRefClient{store: map[string]*vfRes{}, direct: map[string]int{}, pending: map[string]int{}}
}

// vfRefOf returns the rid a value refers to (non-soft reference), or "".
func vfRefOf(raw string) string {
	if len(raw) == 0 || raw[0] != '{' {
		return ""
	}
	var v struct {
		RID  *string `json:"rid"`
		Soft bool    `json:"soft"`
	}
	if json.Unmarshal([]byte(raw), &v) != nil || v.RID == nil || v.Soft {
		return ""
	}
	return *v.RID
}

func (c *vfRefClient) addResources(raw json.RawMessage) {
	var rs struct {
		Models      map[string]map[string]json.RawMessage `json:"models"`
		Collections map[string][]json.RawMessage          `json:"collections"`
		Errors      map[string]json.RawMessage            `json:"errors"`
	}
	if len(raw) == 0 {
		return
	}
	if json.Unmarshal(raw, &rs) != nil {
		zzvf.Assert(false, "resource-set-is-valid-json")
		return
	}
	for rid, m := range rs.Models {
		r := &vfRes{typ: 'm', model: map[string]string{}}
		for k, v := range m {
			r.model[k] = string(v)
		}
		c.store[rid] = r
	}
	for rid, col := range rs.Collections {
		r := &vfRes{typ: 'c'}
		for _, v := range col {
			r.col = append(r.col, string(v))
		}
		c.store[rid] = r
	}
	for rid := range rs.Errors {
		c.store[rid] = &vfRes{typ: 'e'}
	}
}

// refs lists the non-soft references of a held resource.
func (r *vfRes) refs() []string {
	var out []string
	switch r.typ {
	case 'm':
		keys := make([]string, 0, len(r.model))
		for k := range r.model {
			keys = append(keys, k)
		}
		sort.Strings(keys)
		for _, k := range keys {
			if rid := vfRefOf(r.model[k]); rid != "" {
				out = append(out, rid)
			}
		}
	case 'c':
		for _, v := range r.col {
			if rid := vfRefOf(v); rid != "" {
				out = append(out, rid)
			}
		}
	}
	return out
}

// gc drops everything not reachable from a directly subscribed resource and
// then checks that no held resource has a dangling reference.
func (c *vfRefClient) gc() {
	reach := map[string]bool{}
	var visit func(rid string)
	visit = func(rid string) {
		if reach[rid] {
			return
		}
		r, ok := c.store[rid]
		if !ok {
			return
		}
		reach[rid] = true
		for _, ref := range r.refs() {
			visit(ref)
		}
	}
	roots := make([]string, 0, len(c.direct))
	for rid, n := range c.direct {
		if n > 0 {
			roots = append(roots, rid)
		}
	}
	for rid, n := range c.pending {
		if n > 0 && c.direct[rid] <= 0 {
			roots = append(roots, rid)
		}
	}
	sort.Strings(roots)
	for _, rid := range roots {
		visit(rid)
	}
	for rid := range c.store {
		if !reach[rid] {
			delete(c.store, rid)
		}
	}
	for rid, r := range c.store {
		for _, ref := range r.refs() {
			if _, ok := c.store[ref]; !ok {
				zzvf.Note("dangling reference " + rid + " -> " + ref)
				zzvf.Assert(false, "no-dangling-reference-after-message")
			}
		}
	}
}

// response applies a successful response to a request of the given verb.
func (c *vfRefClient) response(verb, rid string, count int, result json.RawMessage) {
	switch verb {
	case "subscribe":
		c.addResources(result)
		c.direct[rid]++
		_, ok := c.store[rid]
		zzvf.Assert(ok, "subscribe-response-hands-over-the-resource-or-client-holds-it")
	case "get":
		// the resources of a get response are not retained
	case "unsubscribe":
		c.direct[rid] -= count
	case "call", "auth", "new":
		var res struct {
			RID string `json:"rid"`
		}
		json.Unmarshal(result, &res)
		if res.RID != "" {
			c.addResources(result)
			c.direct[res.RID]++
		}
	}
	c.gc()
}

// event applies an event frame; it returns the resource id and event name.
func (c *vfRefClient) event(ev string, data json.RawMessage) (string, string) {
	i := strings.LastIndexByte(ev, '.')
	if i < 0 {
		zzvf.Assert(false, "event-frame-has-rid-and-name")
		return "", ""
	}
	rid, name := ev[:i], ev[i+1:]
	r, held := c.store[rid]
	if name == "unsubscribe" {
		zzvf.Assert(c.direct[rid] > 0, "unsubscribe-event-only-for-a-subscribed-resource")
		c.direct[rid] = 0
		c.gc()
		return rid, name
	}
	if !held {
		zzvf.Note("event " + ev + " for a resource the client does not hold")
		zzvf.Assert(false, "no-event-for-a-resource-the-client-does-not-hold")
		return rid, name
	}
	r.events++
	switch name {
	case "change":
		zzvf.Assert(r.typ == 'm', "change-event-only-on-models")
		var d struct {
			Values map[string]json.RawMessage `json:"values"`
		}
		if json.Unmarshal(data, &d) != nil {
			zzvf.Assert(false, "change-event-data-is-valid")
			return rid, name
		}
		c.addResources(data)
		if r.typ == 'm' {
			for k, v := range d.Values {
				if string(v) == `{"action":"delete"}` {
					delete(r.model, k)
				} else {
					r.model[k] = string(v)
				}
			}
		}
	case "add":
		zzvf.Assert(r.typ == 'c', "add-event-only-on-collections")
		var d struct {
			Idx   int             `json:"idx"`
			Value json.RawMessage `json:"value"`
		}
		if json.Unmarshal(data, &d) != nil {
			zzvf.Assert(false, "add-event-data-is-valid")
			return rid, name
		}
		c.addResources(data)
		if r.typ == 'c' {
			zzvf.Assert(d.Idx >= 0 && d.Idx <= len(r.col), "add-index-within-client-collection")
			if d.Idx >= 0 && d.Idx <= len(r.col) {
				col := append([]string{}, r.col[:d.Idx]...)
				col = append(col, string(d.Value))
				r.col = append(col, r.col[d.Idx:]...)
			}
		}
	case "remove":
		zzvf.Assert(r.typ == 'c', "remove-event-only-on-collections")
		var d struct {
			Idx int `json:"idx"`
		}
		if json.Unmarshal(data, &d) != nil {
			zzvf.Assert(false, "remove-event-data-is-valid")
			return rid, name
		}
		if r.typ == 'c' {
			zzvf.Assert(d.Idx >= 0 && d.Idx < len(r.col), "remove-index-within-client-collection")
			if d.Idx >= 0 && d.Idx < len(r.col) {
				col := append([]string{}, r.col[:d.Idx]...)
				r.col = append(col, r.col[d.Idx+1:]...)
			}
		}
	case "delete":
		// the resource stays as it is; the unsubscribe event follows
	}
	c.gc()
	return rid, name
}
