//go:build verif

package server

// Scenario machinery shared by the lifecycle (L) harnesses: a scheduler over
// external actions (client requests, service answers with every outcome,
// service events, disconnect), eager internal processing in between, and
// observers that check frames and gateway state.

import (
	"encoding/json"
	"strings"

	"github.com/resgateio/resgate/server/mq"
	"github.com/resgateio/resgate/server/rescache"
	"github.com/resgateio/resgate/server/reserr"
	"github.com/resgateio/resgate/server/rpc"
	"github.com/resgateio/resgate/zzvf"
)

func vfHandleRequest(in []byte, c *wsConn) { rpc.HandleRequest(in, c) }

// resources the harness service knows (get results)
var vfResources = map[string]string{
	"test.model":      `{"model":{"string":"foo","int":42}}`,
	"test.other":      `{"model":{"x":1}}`,
	"test.parent":     `{"model":{"name":"parent","child":{"rid":"test.model"}}}`,
	"test.collection": `{"collection":["a",{"rid":"test.model"}]}`,
	"test.parent2":    `{"model":{"a":{"rid":"test.model"},"b":{"rid":"test.other"}}}`,
}

type vfReqKind struct {
	method string // client method, e.g. "subscribe.test.model"
	params string
	verb   string // subscribe / unsubscribe / get / call / new / auth / version
	rid    string
	count  int
}

type vfIssued struct {
	id        uint64
	kind      vfReqKind
	responses int
	ok        bool // result (true) or error (false), valid when responses>0
	errCode   string
	atFrame   int // index in the client's frame list of the response
}

// vfRun is the state of one scenario run on one client.
type vfRun struct {
	w       *vfWorld
	cl      *vfClient
	issued  []*vfIssued
	count   map[string]int // protocol-level direct subscription count per rid (from frames)
	gotData map[string]bool
	events  int
	// access bookkeeping for C04/C05: last access answer per rid
	grantGet  map[string]bool
	grantCall map[string]string
	denied    map[string]bool
	trigger   map[string]bool // a revocation trigger reached the gateway after the last access answer
	disc      bool
	// held: resources handed to the client so far (by a response or an
	// event's resource set); checkHandover asserts that no event precedes
	// the message that first hands its resource over
	held          map[string]bool
	checkHandover bool
	// noCallSubscription: protocol versions below 1.2.0, where a call / auth
	// resource response names the resource without subscribing it
	noCallSubscription bool
}

func vfNewRun(w *vfWorld, cl *vfClient) *vfRun {
	return &vfRun{w: w, cl: cl, count: map[string]int{}, gotData: map[string]bool{},
		grantGet: map[string]bool{}, grantCall: map[string]string{}, denied: map[string]bool{}, trigger: map[string]bool{}}
}

func (r *vfRun) issue(k vfReqKind) {
	id := r.w.send(r.cl, k.method, k.params)
	r.issued = append(r.issued, &vfIssued{id: id, kind: k, atFrame: -1})
}

func (r *vfRun) findIssued(id uint64) *vfIssued {
	for _, it := range r.issued {
		if it.id == id {
			return it
		}
	}
	return nil
}

// outstanding reports whether a request of one of the verbs for rid has not
// been answered yet.
func (r *vfRun) outstanding(rid string, verbs ...string) bool {
	for _, it := range r.issued {
		if it.responses == 0 && it.kind.rid == rid {
			for _, v := range verbs {
				if it.kind.verb == v {
					return true
				}
			}
		}
	}
	return false
}

// resourcesIn lists the rids delivered in a resource set.
func vfResourceSet(raw json.RawMessage) (models, collections, errors map[string]json.RawMessage) {
	var rs struct {
		Models      map[string]json.RawMessage `json:"models"`
		Collections map[string]json.RawMessage `json:"collections"`
		Errors      map[string]json.RawMessage `json:"errors"`
	}
	if len(raw) > 0 {
		if err := json.Unmarshal(raw, &rs); err != nil {
			zzvf.Assert(false, "resource-set-is-valid-json")
		}
	}
	return rs.Models, rs.Collections, rs.Errors
}

// observe consumes the new frames of the client and updates the
// protocol-level model; it returns them parsed.
func (r *vfRun) observe() []vfFrame {
	var out []vfFrame
	base := len(r.cl.frames)
	for i, f := range r.w.newFrames(r.cl) {
		fr := vfParseFrame(f)
		out = append(out, fr)
		if fr.ID != nil {
			it := r.findIssued(*fr.ID)
			if it == nil {
				zzvf.Assert(false, "response-for-unknown-id")
				continue
			}
			it.responses++
			it.atFrame = base + i
			it.ok = fr.Error == nil
			if fr.Error != nil {
				it.errCode = fr.Error.Code
			}
			r.onResponse(it, fr)
			continue
		}
		r.onEvent(fr)
	}
	return out
}

func (r *vfRun) hand(raw json.RawMessage) {
	if r.held == nil {
		r.held = map[string]bool{}
	}
	m, c, e := vfResourceSet(raw)
	for rid := range m {
		r.held[rid] = true
	}
	for rid := range c {
		r.held[rid] = true
	}
	for rid := range e {
		r.held[rid] = true
	}
}

func (r *vfRun) onResponse(it *vfIssued, fr vfFrame) {
	if it.ok {
		r.hand(fr.Result)
	}
	switch it.kind.verb {
	case "subscribe":
		if it.ok {
			r.count[it.kind.rid]++
			m, c, _ := vfResourceSet(fr.Result)
			for rid := range m {
				r.gotData[rid] = true
			}
			for rid := range c {
				r.gotData[rid] = true
			}
		}
	case "get":
		if it.ok {
			m, c, _ := vfResourceSet(fr.Result)
			for rid := range m {
				r.gotData[rid] = true
			}
			for rid := range c {
				r.gotData[rid] = true
			}
		}
	case "unsubscribe":
		if it.ok {
			r.count[it.kind.rid] -= it.kind.count
		}
	case "call", "auth", "new":
		if it.ok {
			var res struct {
				RID string `json:"rid"`
			}
			json.Unmarshal(fr.Result, &res)
			if res.RID != "" {
				m, c, e := vfResourceSet(fr.Result)
				if _, isErr := e[res.RID]; isErr {
					// resource response whose resource is an error entry:
					// the statement does not say whether this counts as a
					// subscription (access failure: no; load failure: the
					// gateway keeps it). Not judged: resynchronise.
					r.count[res.RID] = r.directCount(res.RID)
				} else {
					r.count[res.RID]++
				}
				for rid := range m {
					r.gotData[rid] = true
				}
				for rid := range c {
					r.gotData[rid] = true
				}
			}
		}
	}
}

func (r *vfRun) onEvent(fr vfFrame) {
	i := strings.LastIndexByte(fr.Event, '.')
	if i < 0 {
		zzvf.Assert(false, "event-frame-has-rid-and-name")
		return
	}
	rid, name := fr.Event[:i], fr.Event[i+1:]
	if name == "unsubscribe" {
		r.count[rid] = 0
	} else if r.checkHandover {
		zzvf.Reach("handover-checked")
		if !r.held[rid] {
			zzvf.Note("event " + fr.Event + " precedes the message handing " + rid + " over")
		}
		zzvf.Assert(r.held[rid], "no-event-before-the-resource-is-handed-over")
	}
	if name == "change" || name == "add" {
		r.hand(fr.Data)
	}
}

// ---- service side

type vfOutcome struct {
	label   string
	payload []byte
	err     error
}

func vfErrPayload(code, msg string) []byte {
	return []byte(`{"error":{"code":"` + code + `","message":"` + msg + `"}}`)
}

// outcomes lists every answer the harness service may give to a request.
func vfOutcomes(subject string, rich bool) []vfOutcome {
	i := strings.IndexByte(subject, '.')
	typ, rest := subject[:i], subject[i+1:]
	switch typ {
	case "access":
		out := []vfOutcome{
			{"grant", []byte(`{"result":{"get":true,"call":"*"}}`), nil},
			{"deny", []byte(`{"result":{"get":false}}`), nil},
		}
		if rich {
			out = append(out,
				vfOutcome{"error", vfErrPayload("system.custom", "Custom"), nil},
				vfOutcome{"timeout", nil, mq.ErrRequestTimeout},
				vfOutcome{"missing-result", []byte(`{}`), nil},
				vfOutcome{"accessDenied-error", vfErrPayload(reserr.CodeAccessDenied, "Access denied"), nil},
				vfOutcome{"noresponders", nil, mq.ErrNoResponders},
			)
		}
		return out
	case "get":
		res, ok := vfResources[rest]
		out := []vfOutcome{}
		if ok {
			out = append(out, vfOutcome{"data", []byte(`{"result":` + res + `}`), nil})
		}
		out = append(out, vfOutcome{"notfound", vfErrPayload(reserr.CodeNotFound, "Not found"), nil})
		if rich {
			out = append(out, vfOutcome{"timeout", nil, mq.ErrRequestTimeout})
		}
		return out
	case "call", "auth":
		out := []vfOutcome{
			{"result", []byte(`{"result":{"ok":true}}`), nil},
			{"resource", []byte(`{"resource":{"rid":"test.model"}}`), nil},
		}
		if rich {
			out = append(out, vfOutcome{"error", vfErrPayload("system.custom", "Custom"), nil})
		}
		return out
	}
	return []vfOutcome{{"timeout", nil, mq.ErrRequestTimeout}}
}

// answer completes a pending request and records access bookkeeping.
func (r *vfRun) answer(req *vfRequest, o vfOutcome) {
	if strings.HasPrefix(req.subject, "access.") {
		name := req.subject[len("access."):]
		r.trigger[name] = false
		r.grantGet[name] = o.label == "grant"
		if o.label == "grant" {
			r.grantCall[name] = "*"
		} else {
			r.grantCall[name] = ""
		}
	}
	r.w.mq.answer(req, o.payload, o.err)
}

// ---- gateway state inspection

func (r *vfRun) directCount(rid string) int {
	if r.cl.c.subs == nil {
		return 0
	}
	s, ok := r.cl.c.subs[rid]
	if !ok {
		return 0
	}
	return s.direct
}

func vfQuiescent(w *vfWorld) bool {
	if len(w.mq.pending()) > 0 {
		return false
	}
	if rescache.VFCachePending(w.s.cache) > 0 {
		return false
	}
	for _, cl := range w.clients {
		cl.c.mu.Lock()
		n := len(cl.c.queue)
		cl.c.mu.Unlock()
		if n > 0 {
			return false
		}
	}
	return true
}

// vfAnswerable applies the scheduling bounds of an instance to the list of
// pending service requests: hold (get.test.other is answered only after the
// last client request), window (only the oldest `window` pending requests may
// be answered next) and tailfifo (once no client request or trigger is left,
// answers are given oldest first).
func vfAnswerable(pend []*vfRequest, moreExternal bool, clientLeft bool) []*vfRequest {
	if zzvf.ParamOr("hold", 0) == 1 && clientLeft {
		var p2 []*vfRequest
		for _, q := range pend {
			if q.subject != "get.test.other" {
				p2 = append(p2, q)
			}
		}
		pend = p2
	}
	if w := zzvf.ParamOr("window", 0); w > 0 && len(pend) > w {
		pend = pend[:w]
	}
	if zzvf.ParamOr("tailfifo", 0) == 1 && !moreExternal && len(pend) > 1 {
		pend = pend[:1]
	}
	return pend
}
