//go:build verif

package server

import (
	"encoding/json"
	"sort"
	"strings"

	"github.com/resgateio/resgate/zzvf"
)

func init() {
	zzvf.Register("VF_C02_L1_Graph", VF_C02_L1_Graph)
}

type vfGraphSvc struct {
	nodes [3]map[string]string // service state: key -> raw value
}

func vfNodeRID(i int) string { return "test.r" + string(rune('0'+i)) }

func (g *vfGraphSvc) get(i int) string {
	keys := make([]string, 0, len(g.nodes[i]))
	for k := range g.nodes[i] {
		keys = append(keys, k)
	}
	sort.Strings(keys)
	var sb strings.Builder
	sb.WriteString(`{"model":{`)
	for n, k := range keys {
		if n > 0 {
			sb.WriteByte(',')
		}
		sb.WriteString(`"` + k + `":` + g.nodes[i][k])
	}
	sb.WriteString(`}}`)
	return sb.String()
}

var vfGraphKinds = []vfReqKind{
	{method: "subscribe.test.r0", verb: "subscribe", rid: "test.r0"},
	{method: "subscribe.test.r1", verb: "subscribe", rid: "test.r1"},
	{method: "unsubscribe.test.r0", verb: "unsubscribe", rid: "test.r0", count: 1},
	{method: "unsubscribe.test.r1", verb: "unsubscribe", rid: "test.r1", count: 1},
	{method: "subscribe.test.r2", verb: "subscribe", rid: "test.r2"},
	{method: "unsubscribe.test.r2", verb: "unsubscribe", rid: "test.r2", count: 1},
}

// VF_C02_L1_Graph: three model resources whose references form the graph
// given by the instance's edge mask (self loops, cycles, shared children),
// a fixed sequence of subscribe/unsubscribe requests, get answers in every
// order (so that parents are loading while paths are released), and
// reference-changing events on the roots. Every frame goes through the
// reference client (C02); at quiescence what the client holds equals the
// service state (C01) and what the gateway considers sent.
func VF_C02_L1_Graph() {
	mask := zzvf.Param("mask")
	nev := zzvf.Param("events")
	w := vfNewWorld(Config{})
	cl := w.connect("cidA", versionLatest)
	r := vfNewRun(w, cl)
	ref := vfNewRefClient()
	svc := &vfGraphSvc{}
	for i := 0; i < 3; i++ {
		svc.nodes[i] = map[string]string{"v": string(rune('0' + i))}
		for j := 0; j < 3; j++ {
			if mask&(1<<(i*3+j)) != 0 {
				svc.nodes[i]["k"+string(rune('0'+j))] = `{"rid":"` + vfNodeRID(j) + `"}`
			}
		}
	}
	var kinds []vfReqKind
	for _, p := range []string{"k0", "k1", "k2", "k3"} {
		if k := zzvf.ParamOr(p, -1); k >= 0 {
			kinds = append(kinds, vfGraphKinds[k])
		}
	}
	next := 0
	evn := 0
	wasSent := map[string]bool{}
	// vfTrackUnsend marks runs in which the gateway un-sent a resource
	// (Subscription.Unsend: the client is assumed to have dropped it while a
	// loading parent still needs it)
	trackUnsend := func() {
		for rid, s := range cl.c.subs {
			if wasSent[rid] && s.state == stateReady {
				zzvf.Tag("unsend")
			}
			wasSent[rid] = s.state == stateSent
		}
	}
	zzvf.Reach("c02-start")
	for step := 0; step < 40; step++ {
		// access requests are granted at once (not the subject here)
		for again := zzvf.ParamOr("holdaccess", 0) == 0; again; {
			again = false
			for _, q := range w.mq.pending() {
				if strings.HasPrefix(q.subject, "access.") {
					w.mq.answer(q, []byte(`{"result":{"get":true}}`), nil)
					w.settle()
					again = true
					break
				}
			}
		}
		vfGraphObserve(r, ref)
		pend := vfAnswerable(w.mq.pending(), next < len(kinds) || nev > 0, next < len(kinds))
		nact := len(pend)
		issueAct, evAct := -1, -1
		// a protocol-following client unsubscribes only what it knows it
		// is subscribed to
		if next < len(kinds) && !(kinds[next].verb == "unsubscribe" && r.count[kinds[next].rid] < 1) {
			issueAct = nact
			nact++
		}
		if nev > 0 {
			evAct = nact
			nact++
		}
		if nact == 0 {
			break
		}
		a := zzvf.Choose("action", nact)
		switch {
		case a == issueAct:
			k := kinds[next]
			next++
			zzvf.Note("client: " + k.method)
			if k.verb == "unsubscribe" && r.directCount(k.rid) > r.count[k.rid] {
				zzvf.Tag("unsub-while-inflight-count")
			}
			if k.verb == "subscribe" {
				ref.pending[k.rid]++
			}
			r.issue(k)
		case a == evAct:
			nev--
			evn++
			i := zzvf.Choose("event-node", 2)
			name := vfNodeRID(i)
			if zzvf.Choose("event-kind", 2) == 0 {
				// a further reference i -> j under a new key
				j := zzvf.Choose("event-target", 3)
				key := "x" + string(rune('0'+evn))
				val := `{"rid":"` + vfNodeRID(j) + `"}`
				if _, dup := svc.nodes[i]["k"+string(rune('0'+j))]; dup {
					zzvf.Tag("second-reference-to-same-child")
				}
				svc.nodes[i][key] = val
				zzvf.Note("event: " + name + ".change " + key + " -> " + vfNodeRID(j))
				w.mq.event("event."+name, "change", []byte(`{"values":{"`+key+`":`+val+`}}`))
			} else {
				// drop the reference i -> j, if there is one
				j := zzvf.Choose("event-target", 3)
				key := "k" + string(rune('0'+j))
				if _, ok := svc.nodes[i][key]; !ok {
					break
				}
				delete(svc.nodes[i], key)
				zzvf.Note("event: " + name + ".change " + key + " deleted")
				w.mq.event("event."+name, "change", []byte(`{"values":{"`+key+`":{"action":"delete"}}}`))
			}
		default:
			req := pend[a]
			if strings.HasPrefix(req.subject, "access.") {
				zzvf.Note("service: " + req.subject + " -> grant")
				w.mq.answer(req, []byte(`{"result":{"get":true}}`), nil)
				break
			}
			i := int(req.subject[len(req.subject)-1] - '0')
			zzvf.Note("service: " + req.subject + " -> data")
			w.mq.answer(req, []byte(`{"result":`+svc.get(i)+`}`), nil)
		}
		w.settle()
		trackUnsend()
		vfGraphObserve(r, ref)
	}
	zzvf.Assert(vfQuiescent(w), "run-reaches-quiescence")
	zzvf.Reach("c02-quiescent")
	// the client holds exactly what the gateway considers sent
	for rid, s := range cl.c.subs {
		zzvf.Note("gateway " + rid + ": state=" + vfItoa(uint64(s.state)) + " direct=" + vfItoa(uint64(s.direct)) + " indirect=" + vfItoa(uint64(s.indirect)) + " indirectsent=" + vfItoa(uint64(s.indirectsent)))
	}
	for rid, s := range cl.c.subs {
		_, held := ref.store[rid]
		if s.state == stateSent {
			if !held {
				zzvf.Note("gateway considers " + rid + " sent, the client dropped it")
			}
			if !held {
				// internal bookkeeping differs from the client's view; only
				// its observable consequences are judged
				zzvf.Tag("gateway-sent-but-client-dropped")
			}
		}
	}
	for rid, res := range ref.store {
		s, ok := cl.c.subs[rid]
		if !(ok && (s.state == stateSent || res.typ == 'e')) {
			zzvf.Note("client holds " + rid + ", which the gateway does not consider sent")
		}
		if !(ok && (s.state == stateSent || res.typ == 'e')) {
			zzvf.Tag("client-holds-but-gateway-unsent")
		}
		if res.typ != 'm' {
			continue
		}
		// convergence: the local copy equals the service state
		i := int(rid[len(rid)-1] - '0')
		same := len(res.model) == len(svc.nodes[i])
		for k, v := range svc.nodes[i] {
			if res.model[k] != v {
				same = false
			}
		}
		if !same {
			b, _ := json.Marshal(res.model)
			zzvf.Note("client copy of " + rid + ": " + string(b) + " service: " + svc.get(i))
		}
		zzvf.Reach("c02-converged-check")
		zzvf.Assert(same, "client-copy-equals-service-state")
	}
	for rid, n := range ref.direct {
		if n > 0 {
			_, held := ref.store[rid]
			zzvf.Assert(held, "directly-subscribed-resource-is-held")
		}
	}
}

// vfGraphObserve feeds the new frames to the reference client.
func vfGraphObserve(r *vfRun, ref *vfRefClient) {
	for _, fr := range r.observe() {
		if fr.ID != nil {
			it := r.findIssued(*fr.ID)
			if it != nil && it.kind.verb == "subscribe" {
				ref.pending[it.kind.rid]--
			}
			if it != nil && fr.Error == nil {
				ref.response(it.kind.verb, it.kind.rid, it.kind.count, fr.Result)
			} else {
				ref.gc()
			}
			continue
		}
		ref.event(fr.Event, fr.Data)
	}
}
