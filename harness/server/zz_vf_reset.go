//go:build verif

package server

import (
	"encoding/json"
	"strings"

	"github.com/resgateio/resgate/zzvf"
)

func init() {
	zzvf.Register("VF_C12_L1_ResetFanout", VF_C12_L1_ResetFanout)
}

var vfResetPatterns = []string{"test.a", "test.*", "test.>", "*.a", "test.b.>", "test.b.*", ">", "*", "test..a", "test.a.>", "tes*.a", "", "test.>.x"}

func vfTokensOf(s string) []string { return strings.Split(s, ".") }

// vfPatternMatches: reference wildcard semantics (invalid patterns match nothing).
func vfPatternMatches(p, name string) bool {
	if p == "" {
		return false
	}
	pt, nt := vfTokensOf(p), vfTokensOf(name)
	for k, t := range pt {
		if t == "" {
			return false
		}
		if t != "*" && t != ">" && strings.ContainsAny(t, "*>") {
			return false
		}
		if t == ">" && k != len(pt)-1 {
			return false
		}
	}
	for k, t := range pt {
		if t == ">" {
			return len(nt) > k
		}
		if k >= len(nt) {
			return false
		}
		if t != "*" && t != nt[k] {
			return false
		}
	}
	return len(pt) == len(nt)
}

// VF_C12_L1_ResetFanout: a cache with a plain model (test.a), a nested
// collection (test.b.c), two raw queries of test.q normalised to one, and a
// resource whose initial get is still outstanding (test.d); a system reset
// with one or two patterns from a list (valid, wildcard, invalid) for
// resources and for access. Exactly the matching resources are re-fetched
// (each query variant once with its normalised query), access is re-requested
// for exactly the direct subscriptions on matching resources; the re-fetched
// content reaches the client as events and its copy converges.
func VF_C12_L1_ResetFanout() {
	// throttle: the reset throttle of the configuration (0 = none)
	throttle := zzvf.ParamOr("throttle", 0)
	w := vfNewWorld(Config{ResetThrottle: throttle})
	cl := w.connect("cidA", versionLatest)
	r := vfNewRun(w, cl)
	ref := vfNewRefClient()
	content := map[string]string{
		"test.a":   `{"model":{"v":1}}`,
		"test.b.c": `{"collection":[1,2]}`,
		"test.q":   `{"model":{"v":1},"query":"n=1"}`,
		"test.d":   `{"model":{"v":1}}`,
	}
	// badA: how the re-fetch of test.a is answered (0 = with the new content,
	// 1 = another resource type, 2 = an error, 3 = a malformed value)
	badA := 0
	serve := func(hold string) {
		for i := 0; i < 20; i++ {
			var q *vfRequest
			for _, p := range w.mq.pending() {
				if p.subject != hold {
					q = p
					break
				}
			}
			if q == nil {
				return
			}
			switch {
			case strings.HasPrefix(q.subject, "access."):
				w.mq.answer(q, []byte(`{"result":{"get":true}}`), nil)
			case q.subject == "get.test.a" && badA == 1:
				w.mq.answer(q, []byte(`{"result":{"collection":[1]}}`), nil)
			case q.subject == "get.test.a" && badA == 2:
				w.mq.answer(q, vfErrPayload("system.internalError", "Internal"), nil)
			case q.subject == "get.test.a" && badA == 3:
				w.mq.answer(q, []byte(`{"result":{"model":{"v":{"foo":1}}}`), nil)
			default:
				w.mq.answer(q, []byte(`{"result":`+content[q.subject[len("get."):]]+`}`), nil)
			}
			w.settle()
		}
	}
	observe := func() {
		for _, fr := range r.observe() {
			if fr.ID != nil {
				it := r.findIssued(*fr.ID)
				if it != nil && it.kind.verb == "subscribe" {
					ref.pending[it.kind.rid]--
				}
				if it != nil && fr.Error == nil {
					ref.response(it.kind.verb, it.kind.rid, it.kind.count, fr.Result)
				}
				continue
			}
			ref.event(fr.Event, fr.Data)
		}
	}
	for _, rid := range []string{"test.a", "test.b.c", "test.q?x=1", "test.q?x=2"} {
		ref.pending[rid]++
		r.issue(vfReqKind{method: "subscribe." + rid, verb: "subscribe", rid: rid})
		w.settle()
		serve("")
	}
	// test.d: subscribed, its get is not answered before the reset
	ref.pending["test.d"]++
	r.issue(vfReqKind{method: "subscribe.test.d", verb: "subscribe", rid: "test.d"})
	w.settle()
	serve("get.test.d")
	observe()
	zzvf.Reach("c12l1-cached")
	// the reset
	// respats / accpats bound how many of the candidate patterns are tried
	np1 := zzvf.ParamOr("respats", len(vfResetPatterns))
	np2 := zzvf.ParamOr("accpats", len(vfResetPatterns))
	p1 := vfResetPatterns[zzvf.Choose("resource-pattern", np1)]
	p2 := vfResetPatterns[zzvf.Choose("access-pattern", np2)]
	mark := len(w.mq.reqs)
	// the services changed their state
	content["test.a"] = `{"model":{"v":2,"w":3}}`
	content["test.b.c"] = `{"collection":[2,1,1]}`
	content["test.q"] = `{"model":{"v":2},"query":"n=1"}`
	content["test.d"] = `{"model":{"v":2}}`
	zzvf.Note("reset resources [" + p1 + "] access [" + p2 + "]")
	// a further pattern in front of each list: none, an invalid one (which
	// must not affect the others), one matching test.a again, a wildcard
	extra := []string{"", "test..a", "test.a", "test.>"}[zzvf.Choose("extra-pattern", 4)]
	lr, la := []string{p1}, []string{p2}
	if extra != "" {
		lr, la = []string{extra, p1}, []string{extra, p2}
		zzvf.Note("extra leading pattern [" + extra + "]")
	}
	payload, _ := json.Marshal(map[string][]string{"resources": lr, "access": la})
	w.mq.event("event.test.a", "custom", []byte(`{"n":1}`))
	w.mq.event("system", "reset", payload)
	w.settle()
	// a custom event while the re-fetch is outstanding is not superseded by it
	w.mq.event("event.test.a", "custom", []byte(`{"n":2}`))
	w.settle()
	gets := map[string]int{}
	accesses := map[string]int{}
	want := func(name string) int {
		if vfPatternMatches(p1, name) || vfPatternMatches(extra, name) {
			return 1
		}
		return 0
	}
	wantAcc := func(name string, subs int) int {
		if vfPatternMatches(p2, name) || vfPatternMatches(extra, name) {
			return subs
		}
		return 0
	}
	// with a reset throttle the requests go out one by one as the answers
	// come in, so they are counted after the services have answered
	count := func() {
		for _, q := range w.mq.reqs[mark:] {
			if strings.HasPrefix(q.subject, "get.") {
				gets[q.subject[4:]+"|"+vfQueryOf(q.payload)]++
			}
			if strings.HasPrefix(q.subject, "access.") {
				accesses[q.subject[7:]]++
			}
		}
		zzvf.Assert(gets["test.a|"] == want("test.a"), "plain-resource-refetched-iff-matching")
		zzvf.Assert(gets["test.b.c|"] == want("test.b.c"), "nested-resource-refetched-iff-matching")
		zzvf.Assert(gets["test.q|n=1"] == want("test.q"), "query-variant-refetched-once-with-normalised-query")
		zzvf.Assert(gets["test.q|x=1"] == 0 && gets["test.q|x=2"] == 0, "raw-queries-not-refetched")
		zzvf.Assert(gets["test.d|"] == want("test.d"), "resource-with-outstanding-initial-get-refetched-iff-matching")
		// a resource matched by two listed patterns may be re-checked once
		// per pattern (the statement fixes the set of subscriptions, not
		// the number of checks)
		accOK := func(name string, subs int) bool {
			n, w := accesses[name], wantAcc(name, subs)
			if vfPatternMatches(p2, name) && vfPatternMatches(extra, name) {
				return n >= w && n <= 2*w
			}
			return n == w
		}
		zzvf.Assert(accOK("test.a", 1), "access-rerequested-iff-matching")
		zzvf.Assert(accOK("test.b.c", 1), "access-rerequested-iff-matching-nested")
		zzvf.Assert(accOK("test.q", 2), "access-rerequested-per-direct-subscription-on-query-resource")
	}
	if throttle == 0 {
		count()
	}
	if want("test.a") == 1 {
		badA = zzvf.Choose("refetch-answer", 4)
		if badA != 0 {
			zzvf.Note("the re-fetch of test.a is answered badly")
		}
	}
	// answers: the outstanding initial get first or last
	if zzvf.Choose("initial-get-first", 2) == 0 {
		serve("")
	} else {
		serve("get.test.d")
		serve("")
	}
	observe()
	if throttle > 0 {
		count()
	}
	w.mq.event("event.test.a", "custom", []byte(`{"n":3}`))
	w.settle()
	observe()
	// a later state event on a reset resource is applied as usual
	later := want("test.a") == 1 && zzvf.ParamOr("later", 1) == 1
	if later {
		w.mq.event("event.test.a", "change", []byte(`{"values":{"v":7}}`))
		w.settle()
		observe()
	}
	zzvf.Assert(vfQuiescent(w), "run-reaches-quiescence")
	customs := 0
	for _, f := range cl.frames {
		if strings.Contains(f, `"test.a.custom"`) {
			customs++
		}
	}
	zzvf.Assert(customs == 3, "custom-events-around-a-reset-are-all-delivered")
	zzvf.Reach("c12l1-quiescent")
	// convergence without resubscribing
	check := func(rid, name string) {
		if want(name) == 0 {
			return
		}
		res, ok := ref.store[rid]
		zzvf.Assert(ok, "client-still-holds-the-resource")
		if !ok {
			return
		}
		zzvf.Reach("c12l1-converged")
		switch name {
		case "test.a":
			if badA != 0 {
				// the discarded answer changed nothing; later valid
				// messages are processed normally
				if later {
					zzvf.Assert(len(res.model) == 1 && res.model["v"] == "7", "state-event-after-a-discarded-refetch-answer-is-applied")
				} else {
					zzvf.Assert(len(res.model) == 1 && res.model["v"] == "1", "discarded-refetch-answer-changes-nothing")
				}
			} else if later {
				zzvf.Assert(len(res.model) == 2 && res.model["v"] == "7" && res.model["w"] == "3", "state-event-after-a-reset-is-applied")
			} else {
				zzvf.Assert(len(res.model) == 2 && res.model["v"] == "2" && res.model["w"] == "3", "model-converges-after-reset")
			}
		case "test.b.c":
			zzvf.Assert(len(res.col) == 3 && res.col[0] == "2" && res.col[1] == "1" && res.col[2] == "1", "collection-converges-after-reset")
		case "test.q", "test.d":
			zzvf.Assert(res.model["v"] == "2", "resource-converges-after-reset")
		}
	}
	check("test.a", "test.a")
	check("test.b.c", "test.b.c")
	check("test.q?x=1", "test.q")
	check("test.q?x=2", "test.q")
	check("test.d", "test.d")
}
