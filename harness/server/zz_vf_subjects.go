//go:build verif

package server

import (
	"encoding/json"
	"strings"

	"github.com/resgateio/resgate/zzvf"
)

func init() {
	zzvf.Register("VF_C14_S1_Subjects", VF_C14_S1_Subjects)
}

// VF_C14_S1_Subjects: a client request on test.{cid}.model?<query> where the
// query is n symbolic bytes (so it may contain further '?', dots, wildcards,
// spaces): every subject the gateway publishes or subscribes on equals
// type.test.<cid>.model[.method], and the query travels - complete - only in
// the payload.
func VF_C14_S1_Subjects() {
	n := zzvf.Param("n")
	kind := zzvf.Param("kind")
	w := vfNewWorld(Config{})
	cl := w.connect("cidA", versionLatest)
	r := vfNewRun(w, cl)
	q := zzvf.Str("query", n)
	for i := 0; i < n; i++ {
		c := q[i]
		// the rid is a map key in the gateway, so the query bytes are
		// enumerated; alphabet: a letter and every character that matters
		// for subjects and query parsing
		ok := false
		for _, a := range []byte("a?.*> =&") {
			ok = zzvf.Or(ok, c == a)
		}
		zzvf.Assume(ok)
	}
	rid := "test.{cid}.model?" + q
	verb := []string{"subscribe", "get", "call", "auth", "new"}[kind]
	method := verb + "." + rid
	if verb == "call" || verb == "auth" {
		// method part goes after the last dot: keep the query free of dots here
		for i := 0; i < n; i++ {
			zzvf.Assume(q[i] != '.')
		}
		method = verb + "." + rid + ".act"
	}
	zzvf.Reach("c14s1-start")
	r.issue(vfReqKind{method: method, verb: verb, rid: rid})
	w.settle()
	for step := 0; step < 6; step++ {
		pend := w.mq.pending()
		if len(pend) == 0 {
			break
		}
		qreq := pend[0]
		switch {
		case strings.HasPrefix(qreq.subject, "access."):
			w.mq.answer(qreq, []byte(`{"result":{"get":true,"call":"*"}}`), nil)
		case strings.HasPrefix(qreq.subject, "get."):
			w.mq.answer(qreq, []byte(`{"result":{"model":{"a":1}}}`), nil)
		default:
			w.mq.answer(qreq, []byte(`{"result":{"ok":true}}`), nil)
		}
		w.settle()
	}
	frames := r.observe()
	if len(frames) == 1 && frames[0].Error != nil && frames[0].Error.Code == "system.invalidRequest" {
		// rejected as a whole: no service traffic at all
		zzvf.Reach("c14s1-rejected")
		zzvf.Assert(len(w.mq.reqs) == 0, "rejected-request-causes-no-service-traffic")
		return
	}
	zzvf.Reach("c14s1-accepted")
	name := "test.cidA.model"
	for _, l := range w.mq.log {
		subj := l[2:]
		switch l[0] {
		case 'S', 'U':
			ok := subj == "event."+name || subj == "conn.cidA" || subj == "system"
			zzvf.Assert(ok, "subscription-subject-is-event-dot-resource-name")
		}
	}
	for _, rq := range w.mq.reqs {
		want := map[string]bool{"access." + name: true, "get." + name: true, "call." + name + ".act": true, "auth." + name + ".act": true, "call." + name + ".new": true}
		zzvf.Assert(want[rq.subject], "request-subject-is-type-dot-resource-name-dot-method")
		var p struct {
			Query string `json:"query"`
		}
		if json.Unmarshal(rq.payload, &p) == nil {
			zzvf.Assert(zzvf.StrEq(p.Query, q), "query-travels-complete-in-the-payload")
		}
	}
}
