//go:build verif

package server

import (
	"encoding/json"
	"strings"

	"github.com/resgateio/resgate/zzvf"
)

func init() {
	zzvf.Register("VF_C10_L1_Isolation", VF_C10_L1_Isolation)
}

// VF_C10_L1_Isolation: two connections with their own tokens and token ids
// on overlapping {cid}-tagged resources. Every service request carries the
// requester's id and token only, subjects carry the expanded tag, client
// frames carry the unexpanded tag and no connection id; resource events,
// token events and token resets reach only the addressed connections.
func VF_C10_L1_Isolation() {
	w := vfNewWorld(Config{})
	cids := []string{"cidAAAA", "cidBBBB"}
	cls := []*vfClient{w.connect(cids[0], versionLatest), w.connect(cids[1], versionLatest)}
	runs := []*vfRun{vfNewRun(w, cls[0]), vfNewRun(w, cls[1])}
	tokens := []string{"", ""}
	tids := []string{"", ""}
	seen := 0
	checkReqs := func() {
		for ; seen < len(w.mq.reqs); seen++ {
			q := w.mq.reqs[seen]
			var p struct {
				CID   string          `json:"cid"`
				Token json.RawMessage `json:"token"`
				Query string          `json:"query"`
			}
			if !strings.HasPrefix(q.subject, "get.") && json.Unmarshal(q.payload, &p) == nil && p.CID != "" {
				who := -1
				for i, c := range cids {
					if p.CID == c {
						who = i
					}
				}
				zzvf.Assert(who >= 0, "request-carries-a-known-connection-id")
				if who < 0 {
					continue
				}
				other := cids[1-who]
				tok := string(p.Token)
				if tok == "null" {
					tok = ""
				}
				zzvf.Assert(tok == tokens[who], "request-carries-the-requesters-own-token")
				zzvf.Assert(!strings.Contains(q.subject, other) && !strings.Contains(p.Query, other), "request-mentions-only-the-requesters-id")
				zzvf.Assert(!strings.Contains(q.subject, "{cid}") && !strings.Contains(p.Query, "{cid}"), "cid-tag-expanded-towards-services")
			}
			if strings.HasPrefix(q.subject, "get.") {
				zzvf.Assert(!strings.Contains(q.subject, "{cid}") && !strings.Contains(string(q.payload), "{cid}"), "cid-tag-expanded-towards-services")
			}
		}
	}
	checkFrames := func() {
		for _, r := range runs {
			for _, f := range w.newFrames(r.cl) {
				zzvf.Reach("c10-frame")
				for _, c := range cids {
					zzvf.Assert(!strings.Contains(f, c), "no-connection-id-in-client-frames")
				}
			}
		}
	}
	zzvf.Reach("c10-start")
	// tokens
	for i := range cls {
		if zzvf.Choose("has-token", 2) == 1 {
			tokens[i] = `{"user":"u` + string(rune('A'+i)) + `"}`
			tids[i] = "tid" + string(rune('A'+i))
			w.mq.event("conn."+cids[i], "token", []byte(`{"token":`+tokens[i]+`,"tid":"`+tids[i]+`"}`))
			w.settle()
		}
	}
	// A's token is rotated, cleared, or left alone
	switch zzvf.Choose("rotate", 3) {
	case 1:
		tokens[0] = `{"user":"uA2"}`
		tids[0] = "tidA2"
		w.mq.event("conn."+cids[0], "token", []byte(`{"token":`+tokens[0]+`,"tid":"tidA2"}`))
		w.settle()
	case 2:
		tokens[0] = ""
		tids[0] = ""
		w.mq.event("conn."+cids[0], "token", []byte(`{"token":null}`))
		w.settle()
	}
	checkReqs()
	// answer whatever re-access requests the token events caused
	drain := func() {
		for i := 0; i < 12; i++ {
			pend := w.mq.pending()
			if len(pend) == 0 {
				return
			}
			q := pend[0]
			switch {
			case strings.HasPrefix(q.subject, "access."):
				w.mq.answer(q, []byte(`{"result":{"get":true,"call":"*"}}`), nil)
			case strings.HasPrefix(q.subject, "get."):
				w.mq.answer(q, []byte(`{"result":{"model":{"owner":"me"}}}`), nil)
			case strings.HasPrefix(q.subject, "call."):
				if zzvf.Choose("call-answer", 2) == 1 {
					// a resource response naming a {cid}-tagged resource
					zzvf.Tag("tagged-resource-response")
					w.mq.answer(q, []byte(`{"resource":{"rid":"test.{cid}.sess"}}`), nil)
				} else {
					w.mq.answer(q, []byte(`{"result":{"ok":true}}`), nil)
				}
			default:
				w.mq.answer(q, []byte(`{"result":null}`), nil)
			}
			w.settle()
			checkReqs()
		}
	}
	// requests on a rid with two {cid} tags
	rid := "test.{cid}.model?owner={cid}"
	for i, r := range runs {
		switch zzvf.Choose("request", 4) {
		case 0:
		case 1:
			r.issue(vfReqKind{method: "subscribe." + rid, verb: "subscribe", rid: rid})
		case 2:
			r.issue(vfReqKind{method: "call.test.{cid}.model.method", verb: "call", rid: "test.{cid}.model"})
		case 3:
			r.issue(vfReqKind{method: "auth.test.{cid}.model.login", verb: "auth", rid: "test.{cid}.model"})
		}
		_ = i
		w.settle()
		checkReqs()
	}
	drain()
	checkFrames()
	// a resource event for A's resource reaches A only, under the unexpanded rid
	aSubscribed := runs[0].cl.c.subs[rid] != nil
	before := []int{len(cls[0].frames), len(cls[1].frames)}
	if w.mq.event("event.test."+cids[0]+".model", "custom", []byte(`{"x":1}`)) {
		w.settle()
		checkFrames()
		gotA := len(cls[0].frames) - before[0]
		gotB := len(cls[1].frames) - before[1]
		zzvf.Reach("c10-event")
		zzvf.Assert(gotB == 0, "event-on-As-resource-does-not-reach-B")
		if aSubscribed {
			zzvf.Assert(gotA == 1 && strings.Contains(cls[0].frames[len(cls[0].frames)-1], `"test.{cid}.model?owner={cid}.custom"`), "event-reaches-the-subscriber-under-its-own-rid")
		}
	}
	// token reset addressed to one token id
	cand := []string{"tidA", "tidA2", "tidB", ""}
	tid := cand[zzvf.Choose("reset-tid", 4)]
	mark := len(w.mq.reqs)
	w.mq.event("system", "tokenReset", []byte(`{"tids":["`+tid+`"],"subject":"auth.test.renew"}`))
	w.settle()
	checkReqs()
	zzvf.Reach("c10-token-reset")
	for i := range cls {
		n := 0
		for _, q := range w.mq.reqs[mark:] {
			var p struct {
				CID string `json:"cid"`
			}
			json.Unmarshal(q.payload, &p)
			if q.subject == "auth.test.renew" && p.CID == cids[i] {
				n++
			}
		}
		if tids[i] == tid && tid != "" {
			zzvf.Assert(n == 1, "token-reset-reaches-the-connection-holding-that-token-id")
		} else {
			zzvf.Assert(n == 0, "token-reset-does-not-reach-other-connections")
		}
	}
	drain()
	checkFrames()
}
