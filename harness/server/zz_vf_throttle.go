//go:build verif

package server

import (
	"encoding/json"
	"github.com/resgateio/resgate/server/mq"
	"strings"

	"github.com/resgateio/resgate/zzvf"
)

func init() {
	zzvf.Register("VF_C19_L1_ResetFanout", VF_C19_L1_ResetFanout)
	zzvf.Register("VF_C19_L2_RefThrottle", VF_C19_L2_RefThrottle)
}

func vfCountPending(w *vfWorld, from int, prefixes ...string) int {
	n := 0
	for i, q := range w.mq.reqs {
		if i < from || q.answered {
			continue
		}
		for _, p := range prefixes {
			if strings.HasPrefix(q.subject, p) {
				n++
			}
		}
	}
	return n
}

// VF_C19_L1_ResetFanout: M connections hold test.model (and optionally
// test.other); a system reset lists access (and resource) patterns with
// resetThrottle=N. Answers in every order with grant/deny, one connection may
// disconnect or unsubscribe at any moment. At every step at most N governed
// requests are outstanding; at quiescence every connection that is still
// subscribed had its access re-requested (no stall); no request is started
// for a closed connection (C11).
func VF_C19_L1_ResetFanout() {
	N := zzvf.Param("limit")
	M := zzvf.Param("conns")
	both := zzvf.Param("resources") == 2
	withGet := zzvf.Param("refetch") == 1
	w := vfNewWorld(Config{ResetThrottle: N})
	var runs []*vfRun
	for i := 0; i < M; i++ {
		cl := w.connect("cid"+string(rune('A'+i)), versionLatest)
		r := vfNewRun(w, cl)
		runs = append(runs, r)
		vfEstablish(w, r, "test.model")
		if both {
			vfEstablish(w, r, "test.other")
		}
	}
	mark := len(w.mq.reqs)
	zzvf.Reach("c19l1-established")
	if withGet {
		w.mq.event("system", "reset", []byte(`{"resources":["test.>"],"access":["test.>"]}`))
	} else {
		w.mq.event("system", "reset", []byte(`{"access":["test.>"]}`))
	}
	w.settle()
	disturb := zzvf.Param("disturb") // 0 none, 1 disconnect, 2 unsubscribe
	discMark := -1
	var gone *vfRun
	for step := 0; step < 40; step++ {
		if N > 0 {
			zzvf.Assert(vfCountPending(w, mark, "access.", "get.") <= N, "at-most-N-governed-requests-outstanding")
		}
		pend := vfAnswerable(w.mq.pending(), disturb > 0, false)
		nact := len(pend)
		distAct := -1
		if disturb > 0 {
			distAct = nact
			nact++
		}
		if nact == 0 {
			break
		}
		a := zzvf.Choose("action", nact)
		if a == distAct {
			r := runs[zzvf.Choose("which-conn", M)]
			gone = r
			if disturb == 1 {
				zzvf.Note("disconnect " + r.cl.c.cid)
				r.disc = true
				discMark = len(w.mq.reqs)
				w.disconnect(r.cl)
				w.settle()
			} else {
				zzvf.Note("unsubscribe test.model on " + r.cl.c.cid)
				r.issue(vfReqKind{method: "unsubscribe.test.model", verb: "unsubscribe", rid: "test.model", count: 1})
			}
			disturb = 0
		} else {
			req := pend[a]
			// gets may also time out (transport error), accesses grant/deny
			outs := vfOutcomes(req.subject, strings.HasPrefix(req.subject, "get."))
			o := outs[zzvf.Choose("outcome", len(outs))]
			zzvf.Note("service: " + req.subject + " -> " + o.label)
			runs[0].answer(req, o)
		}
		w.settle()
		for _, r := range runs {
			r.observe()
		}
	}
	zzvf.Assert(vfQuiescent(w), "run-reaches-quiescence")
	zzvf.Reach("c19l1-quiescent")
	// no stall: every connection that stayed subscribed was re-checked
	for _, r := range runs {
		if r.disc {
			continue
		}
		for _, rid := range []string{"test.model", "test.other"} {
			if rid == "test.other" && !both {
				continue
			}
			if r == gone && rid == "test.model" {
				continue // it unsubscribed meanwhile
			}
			found := false
			for _, q := range w.mq.reqs[mark:] {
				if q.subject != "access."+rid {
					continue
				}
				var p struct {
					CID string `json:"cid"`
				}
				json.Unmarshal(q.payload, &p)
				if p.CID == r.cl.c.cid {
					found = true
				}
			}
			zzvf.Assert(found, "every-governed-access-request-is-eventually-sent")
		}
	}
	if withGet {
		for _, rid := range []string{"test.model", "test.other"} {
			if rid == "test.other" && !both {
				continue
			}
			found := false
			for _, q := range w.mq.reqs[mark:] {
				if q.subject == "get."+rid {
					found = true
				}
			}
			zzvf.Assert(found, "every-governed-get-request-is-eventually-sent")
		}
	}
	if discMark >= 0 {
		for _, q := range w.mq.reqs[discMark:] {
			var p struct {
				CID string `json:"cid"`
			}
			if json.Unmarshal(q.payload, &p) == nil && p.CID == gone.cl.c.cid {
				zzvf.Tag("throttled-access-after-disconnect")
				zzvf.Assert(false, "no-request-on-behalf-of-closed-connection")
			}
		}
	}
}

var vfBigModel = `{"model":{"a":{"rid":"test.c1"},"b":{"rid":"test.c2"},"c":{"rid":"test.c3"},"d":{"rid":"test.c1"}}}`

// VF_C19_L2_RefThrottle: referenceThrottle=N; subscribing a model with three
// distinct references (one of them twice, one nested) and a later change
// event that adds three more: at most N of the governed get requests are
// outstanding at any time, whatever the answer order; all are sent.
func VF_C19_L2_RefThrottle() {
	N := zzvf.Param("limit")
	w := vfNewWorld(Config{ReferenceThrottle: N})
	cl := w.connect("cidA", versionLatest)
	r := vfNewRun(w, cl)
	res := map[string]string{
		"test.big": vfBigModel,
		"test.c1":  `{"model":{"n":1}}`,
		"test.c2":  `{"model":{"n":2,"deep":{"rid":"test.c4"}}}`,
		"test.c3":  `{"model":{"n":3}}`,
		"test.c4":  `{"model":{"n":4,"back":{"rid":"test.big"}}}`,
		"test.c5":  `{"model":{"n":5}}`,
		"test.c6":  `{"model":{"n":6}}`,
		"test.c7":  `{"model":{"n":7}}`,
	}
	r.issue(vfReqKind{method: "subscribe.test.big", verb: "subscribe", rid: "test.big"})
	w.settle()
	eventLeft := zzvf.Param("event")
	timeoutsLeft := zzvf.ParamOr("timeouts", 1) // gets that are never answered (messaging timeout)
	governed := func() int {
		n := 0
		for _, q := range w.mq.pending() {
			if strings.HasPrefix(q.subject, "get.test.c") {
				n++
			}
		}
		return n
	}
	zzvf.Reach("c19l2-start")
	for step := 0; step < 40; step++ {
		if N > 0 {
			zzvf.Assert(governed() <= N, "at-most-N-reference-gets-outstanding")
		}
		pend := vfAnswerable(w.mq.pending(), eventLeft > 0, false)
		nact := len(pend)
		evAct := -1
		if eventLeft > 0 && r.count["test.big"] > 0 {
			evAct = nact
			nact++
		}
		if nact == 0 {
			break
		}
		a := zzvf.Choose("action", nact)
		if a == evAct {
			eventLeft--
			zzvf.Note("event: change adding three references")
			w.mq.event("event.test.big", "change", []byte(`{"values":{"x":{"rid":"test.c5"},"y":{"rid":"test.c6"},"z":{"rid":"test.c7"}}}`))
		} else {
			req := pend[a]
			if strings.HasPrefix(req.subject, "access.") {
				zzvf.Note("service: " + req.subject + " -> grant")
				w.mq.answer(req, []byte(`{"result":{"get":true}}`), nil)
			} else {
				name := req.subject[len("get."):]
				nout := 2
				if timeoutsLeft > 0 {
					nout = 3
				}
				switch zzvf.Choose("outcome", nout) {
				case 0:
					zzvf.Note("service: " + req.subject + " -> data")
					w.mq.answer(req, []byte(`{"result":`+res[name]+`}`), nil)
				case 1:
					zzvf.Note("service: " + req.subject + " -> notfound")
					w.mq.answer(req, vfErrPayload("system.notFound", "Not found"), nil)
				case 2:
					// no answer at all: the messaging client reports a timeout
					timeoutsLeft--
					zzvf.Note("service: " + req.subject + " -> timeout")
					w.mq.answer(req, nil, mq.ErrRequestTimeout)
				}
			}
		}
		w.settle()
		r.observe()
	}
	zzvf.Assert(vfQuiescent(w), "run-reaches-quiescence")
	zzvf.Reach("c19l2-quiescent")
	zzvf.Assert(len(r.issued) == 1 && r.issued[0].responses == 1, "subscribe-answered")
}
