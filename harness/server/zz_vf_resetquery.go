//go:build verif

package server

import (
	"strings"

	"github.com/resgateio/resgate/zzvf"
)

func init() {
	zzvf.Register("VF_C06_L3_ResetQueryVariants", VF_C06_L3_ResetQueryVariants)
}

// VF_C06_L3_ResetQueryVariants: one resource name held as the plain resource
// and / or as query variants (two raw queries, normalised to one or to two
// queries) by one connection. A system reset, a reaccess event or a token
// event then has to make the gateway ask for access again exactly once per
// directly subscribed resource id, with that id's query (the reaccess event:
// for the plain resource only); each verdict (grant
// or denial, answered in any order) unsubscribes exactly the denied ids.
func VF_C06_L3_ResetQueryVariants() {
	held := zzvf.Param("held") // bit 0: plain, bit 1: ?x=1, bit 2: ?x=2
	normP := zzvf.ParamOr("norm", 0) // 1: both raw queries normalise to n=1; 2: so does the plain resource (its entry is a link to the query resource)
	norm := normP >= 1
	w := vfNewWorld(Config{})
	cl := w.connect("cidA", versionLatest)
	r := vfNewRun(w, cl)
	// the connection has a token from the start (the first token of a
	// connection needs no re-validation)
	w.mq.event("conn.cidA", "token", []byte(`{"token":{"user":"t0"},"tid":"tid1"}`))
	w.settle()
	rids := []string{}
	for i, rid := range []string{"test.model", "test.model?x=1", "test.model?x=2"} {
		if held&(1<<uint(i)) != 0 {
			rids = append(rids, rid)
		}
	}
	queryOf := func(payload []byte) string {
		s := string(payload)
		i := strings.Index(s, `"query":"`)
		if i < 0 {
			return ""
		}
		s = s[i+len(`"query":"`):]
		return s[:strings.IndexByte(s, '"')]
	}
	for _, rid := range rids {
		r.issue(vfReqKind{method: "subscribe." + rid, verb: "subscribe", rid: rid})
		w.settle()
		for i := 0; i < 8; i++ {
			pend := w.mq.pending()
			if len(pend) == 0 {
				break
			}
			q := pend[0]
			switch {
			case strings.HasPrefix(q.subject, "access."):
				w.mq.answer(q, []byte(`{"result":{"get":true}}`), nil)
			case queryOf(q.payload) == "" && normP == 2:
				w.mq.answer(q, []byte(`{"result":{"model":{"v":1},"query":"n=1"}}`), nil)
			case queryOf(q.payload) == "":
				w.mq.answer(q, []byte(`{"result":{"model":{"v":1}}}`), nil)
			case norm:
				w.mq.answer(q, []byte(`{"result":{"model":{"v":1},"query":"n=1"}}`), nil)
			default:
				w.mq.answer(q, []byte(`{"result":{"model":{"v":1},"query":"`+queryOf(q.payload)+`"}}`), nil)
			}
			w.settle()
		}
		r.observe()
		zzvf.Assert(r.count[rid] == 1, "harness-established-subscription")
	}
	zzvf.Reach("c06l3-established")
	mark := len(w.mq.reqs)
	trigger := zzvf.Choose("trigger", 3)
	switch trigger {
	case 0:
		zzvf.Note("trigger: system reset access")
		w.mq.event("system", "reset", []byte(`{"access":["test.model.","test.*"]}`))
	case 1:
		zzvf.Note("trigger: token event")
		w.mq.event("conn.cidA", "token", []byte(`{"token":{"user":"t1"},"tid":"tid1"}`))
	case 2:
		zzvf.Note("trigger: reaccess event")
		w.mq.event("event.test.model", "reaccess", nil)
	}
	w.settle()
	// exactly one access request per held resource id, with its query
	want := map[string]int{}
	for _, rid := range rids {
		q := ""
		if i := strings.IndexByte(rid, '?'); i >= 0 {
			q = rid[i+1:]
		}
		// a resource event addresses the plain resource only: query
		// variants change through query events and are not reached by the
		// reaccess event of their resource name (nor is a plain id that the
		// service turned into a link to a query resource)
		if trigger == 2 && (q != "" || normP == 2) {
			continue
		}
		want[q]++
	}
	got := map[string]int{}
	for _, q := range w.mq.reqs[mark:] {
		zzvf.Assert(q.subject == "access.test.model", "only-access-requests-follow-the-trigger")
		got[queryOf(q.payload)]++
	}
	for q, n := range want {
		if got[q] != n {
			zzvf.Note("access requests with query '" + q + "': " + vfItoa(uint64(got[q])) + ", held resource ids: " + vfItoa(uint64(n)))
		}
		zzvf.Assert(got[q] == n, "access-rerequested-once-per-held-resource-id")
	}
	for q := range got {
		zzvf.Assert(want[q] > 0, "no-access-request-for-a-query-not-held")
	}
	// verdicts in any order
	denied := map[string]bool{}
	for step := 0; step < 4; step++ {
		pend := w.mq.pending()
		if len(pend) == 0 {
			break
		}
		q := pend[zzvf.Choose("answer", len(pend))]
		if zzvf.Choose("verdict", 2) == 1 {
			denied[queryOf(q.payload)] = true
			w.mq.answer(q, []byte(`{"result":{"get":false}}`), nil)
		} else {
			w.mq.answer(q, []byte(`{"result":{"get":true}}`), nil)
		}
		w.settle()
	}
	zzvf.Assert(len(w.mq.pending()) == 0, "run-reaches-quiescence")
	unsub := map[string]int{}
	for _, fr := range r.observe() {
		if fr.ID == nil {
			i := strings.LastIndexByte(fr.Event, '.')
			if fr.Event[i+1:] == "unsubscribe" {
				unsub[fr.Event[:i]]++
			}
		}
	}
	zzvf.Reach("c06l3-verdicts")
	for _, rid := range rids {
		q := ""
		if i := strings.IndexByte(rid, '?'); i >= 0 {
			q = rid[i+1:]
		}
		n := 0
		if denied[q] {
			n = 1
		}
		zzvf.Assert(unsub[rid] == n, "unsubscribe-event-iff-denied")
		s, ok := cl.c.subs[rid]
		zzvf.Assert(ok == !denied[q] && (!ok || s.direct == 1), "denied-ids-released-granted-ids-kept")
	}
}
