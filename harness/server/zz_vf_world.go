//go:build verif

package server

// vfBareConn is a wsConn with just enough around it for the counting code.
func vfBareConn() *wsConn {
	s := &Service{logger: vfLogger{}}
	return &wsConn{cid: "cidA", serv: s, subs: make(map[string]*Subscription)}
}

type vfLogger struct{}

func (vfLogger) Log(s string)   {}
func (vfLogger) Error(s string) {}
func (vfLogger) Debug(s string) {}
func (vfLogger) Trace(s string) {}
func (vfLogger) IsDebug() bool  { return false }
func (vfLogger) IsTrace() bool  { return false }
