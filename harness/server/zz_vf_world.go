//go:build verif

package server

// The "world" of the lifecycle harnesses: the real Service / rescache.Cache /
// wsConn / Subscription objects wired to a harness messaging client, with the
// two worker loops (wsConn.outputWorker, Cache.startWorker) driven
// explicitly by a scheduler. The same code runs under the symbolic engine and
// natively (replay).

import (
	"encoding/json"
	"net/http"
	"sync"
	"time"

	"github.com/bsm/openmetrics"
	"github.com/gorilla/websocket"
	"github.com/posener/wstest"
	"github.com/resgateio/resgate/server/metrics"
	"github.com/resgateio/resgate/server/mq"
	"github.com/resgateio/resgate/server/rescache"
	"github.com/resgateio/resgate/zzvf"
)

// vfBareConn is a wsConn with just enough around it for the counting code.
func vfBareConn() *wsConn {
	s := &Service{logger: vfLogger{}}
	return &wsConn{cid: "cidA", serv: s, subs: make(map[string]*Subscription)}
}

type vfLogger struct{}

func (vfLogger) Log(s string)   {}
func (vfLogger) Error(s string) {}
func (vfLogger) Debug(s string) {}
func (vfLogger) Trace(s string) {}
func (vfLogger) IsDebug() bool  { return false }
func (vfLogger) IsTrace() bool  { return false }

// ---------------------------------------------------------------- mq stub

type vfRequest struct {
	subject  string
	payload  []byte
	cb       mq.Response
	answered bool
	seq      int
}

type vfMQSub struct {
	ns     string
	cb     mq.Response
	unsub  bool
	client *vfMQ
}

func (s *vfMQSub) Unsubscribe() error {
	s.client.mu.Lock()
	defer s.client.mu.Unlock()
	s.unsub = true
	s.client.log = append(s.client.log, "U "+s.ns)
	return nil
}

// vfMQ implements mq.Client following the contract of server/mq/mq.go: the
// Response of SendRequest is called once, later, never synchronously.
type vfMQ struct {
	mu       sync.Mutex
	reqs     []*vfRequest
	subs     []*vfMQSub
	log      []string
	seq      int
	connects int
	closes   int
	closed   bool
	onClosed func(error)
}

func (m *vfMQ) Connect() error {
	m.mu.Lock()
	defer m.mu.Unlock()
	m.connects++
	m.closed = false
	return nil
}

// Close ends the connection: as with the NATS adapter, pending requests are
// dropped (their callbacks are never called) and subscriptions end.
func (m *vfMQ) Close() {
	m.mu.Lock()
	defer m.mu.Unlock()
	m.closes++
	m.closed = true
	for _, r := range m.reqs {
		r.answered = true
	}
	for _, s := range m.subs {
		s.unsub = true
	}
	m.log = append(m.log, "C")
}
func (m *vfMQ) IsClosed() bool { return m.closed }
func (m *vfMQ) SetClosedHandler(cb func(error)) {
	m.onClosed = cb
}

const vfMaxControlLine = 4096
const vfInboxLen = 29

func (m *vfMQ) SendRequest(subject string, payload []byte, cb mq.Response) {
	m.mu.Lock()
	defer m.mu.Unlock()
	m.seq++
	m.reqs = append(m.reqs, &vfRequest{subject: subject, payload: payload, cb: cb, seq: m.seq})
	m.log = append(m.log, "R "+subject)
}

func (m *vfMQ) Subscribe(namespace string, cb mq.Response) (mq.Unsubscriber, error) {
	if len(namespace) > vfMaxControlLine-2 {
		return nil, mq.ErrSubjectTooLong
	}
	m.mu.Lock()
	defer m.mu.Unlock()
	s := &vfMQSub{ns: namespace, cb: cb, client: m}
	m.subs = append(m.subs, s)
	m.log = append(m.log, "S "+namespace)
	return s, nil
}

// pending returns the unanswered requests in send order.
func (m *vfMQ) pending() []*vfRequest {
	m.mu.Lock()
	defer m.mu.Unlock()
	var out []*vfRequest
	for _, r := range m.reqs {
		if !r.answered {
			out = append(out, r)
		}
	}
	return out
}

// activeSub returns the live subscription on a namespace, if any.
func (m *vfMQ) activeSub(ns string) *vfMQSub {
	m.mu.Lock()
	defer m.mu.Unlock()
	for _, s := range m.subs {
		if s.ns == ns && !s.unsub {
			return s
		}
	}
	return nil
}

func (m *vfMQ) activeSubs() int {
	m.mu.Lock()
	defer m.mu.Unlock()
	n := 0
	for _, s := range m.subs {
		if !s.unsub {
			n++
		}
	}
	return n
}

// answer completes request r with a payload or an error (exactly once).
func (m *vfMQ) answer(r *vfRequest, payload []byte, err error) {
	if r.answered {
		zzvf.Assert(false, "harness-answers-once")
	}
	r.answered = true
	if len(r.subject)+vfInboxLen > vfMaxControlLine {
		r.cb("", nil, mq.ErrSubjectTooLong)
		return
	}
	if err != nil {
		r.cb("", nil, err)
		return
	}
	r.cb(r.subject, payload, nil)
}

// event delivers a service event if the gateway is subscribed to it.
func (m *vfMQ) event(ns, name string, payload []byte) bool {
	s := m.activeSub(ns)
	if s == nil {
		return false
	}
	s.cb(ns+"."+name, payload, nil)
	return true
}

// ---------------------------------------------------------------- world

type vfClient struct {
	lagging bool // the scheduler does not run this connection's worker
	release chan struct{}
	c       *wsConn
	sink    *vfSink
	seen    int
	frames  []string
	nextID  uint64
}

type vfWorld struct {
	s       *Service
	mq      *vfMQ
	clients []*vfClient
	gauges  *metrics.MetricSet // the cache's gauges (harness implementation of the library's interfaces)
}

// vfGauge / vfCounter stand in for the metrics library's gauge and counter:
// only Add, Set and Value are implemented (any other method would panic).
type vfGauge struct {
	openmetrics.Gauge
	v float64
}

func (g *vfGauge) Add(val float64) { g.v += val }
func (g *vfGauge) Set(val float64) { g.v = val }
func (g *vfGauge) Value() float64  { return g.v }

type vfCounter struct{ openmetrics.Counter }

func (vfCounter) Add(val float64) {}

type vfCounterFamily struct{ openmetrics.CounterFamily }

func (vfCounterFamily) With(labelValues ...string) openmetrics.Counter { return vfCounter{} }

func vfNewGauges() *metrics.MetricSet {
	return &metrics.MetricSet{
		MemSysBytes: &vfGauge{}, WSConnections: &vfGauge{}, WSConnectionCount: vfCounter{},
		WSRequestsGet: vfCounter{}, WSRequestsSubscribe: vfCounter{}, WSRequestsUnsubscribe: vfCounter{},
		WSRequestsCall: vfCounter{}, WSRequestsAuth: vfCounter{},
		CacheResources: &vfGauge{}, CacheSubscriptions: &vfGauge{},
		HTTPRequests: vfCounterFamily{}, HTTPRequestsGet: vfCounter{}, HTTPRequestsPost: vfCounter{},
	}
}

type vfSink struct {
	mu     sync.Mutex
	frames []string
	peer   *websocket.Conn // the client end (native mode)
	closed bool            // the gateway closed the socket (native mode)
}

// wsClosed reports whether the gateway has closed the client's socket.
func (w *vfWorld) wsClosed(cl *vfClient) bool {
	if zzvf.Symbolic() {
		return zzvf.WSClosed(cl.c.ws)
	}
	for k := 0; k < 20; k++ {
		cl.sink.mu.Lock()
		c := cl.sink.closed
		cl.sink.mu.Unlock()
		if c {
			return true
		}
		time.Sleep(200 * time.Microsecond)
	}
	return false
}

func (s *vfSink) add(f string) {
	s.mu.Lock()
	s.frames = append(s.frames, f)
	s.mu.Unlock()
}

func (s *vfSink) snapshot() []string {
	s.mu.Lock()
	defer s.mu.Unlock()
	return append([]string(nil), s.frames...)
}

func vfNewWorld(cfg Config) *vfWorld { return vfNewWorldOpt(cfg, true) }

// vfNewWorldOpt builds the world; with started == false the service is left
// stopped (no stop channel, cache not started) for Service.Start to run.
func vfNewWorldOpt(cfg Config, started bool) *vfWorld {
	// maprev: the engine iterates maps in insertion order, or in reverse
	zzvf.MapOrder(zzvf.ParamOr("maprev", 0) == 1)
	m := &vfMQ{}
	s := &Service{cfg: cfg, logger: vfLogger{}, mq: m}
	if s.cfg.APIPath == "" {
		s.cfg.APIPath = "/api/"
	}
	if s.cfg.allowOrigin == nil {
		s.cfg.allowOrigin = []string{"*"}
	}
	s.conns = make(map[string]*wsConn)
	ms := vfNewGauges()
	s.cache = rescache.NewCache(m, 0, cfg.ResetThrottle, time.Hour, s.logger, ms)
	if started {
		s.stop = make(chan error, 1)
		if err := s.cache.Start(); err != nil {
			zzvf.Assert(false, "harness-cache-start")
		}
	}
	s.enc = apiEncoderFactories["json"](s.cfg)
	return &vfWorld{s: s, mq: m, gauges: ms}
}

// vfNativeWS creates an in-memory websocket pair (native mode) and collects
// the frames the gateway writes.
func vfNativeWS() (*websocket.Conn, *vfSink) {
	up := websocket.Upgrader{}
	ch := make(chan *websocket.Conn, 1)
	h := http.HandlerFunc(func(w http.ResponseWriter, r *http.Request) {
		c, err := up.Upgrade(w, r, nil)
		if err != nil {
			panic(err)
		}
		ch <- c
	})
	d := wstest.NewDialer(h)
	client, _, err := d.Dial("ws://vf/", nil)
	if err != nil {
		panic(err)
	}
	server := <-ch
	sink := &vfSink{peer: client}
	go func() {
		for {
			_, data, err := client.ReadMessage()
			if err != nil {
				sink.mu.Lock()
				sink.closed = true
				sink.mu.Unlock()
				return
			}
			sink.add(string(data))
		}
	}()
	return server, sink
}

// connect creates a client connection the way Service.newWSConn does, except
// that the output worker is not started as a goroutine: the scheduler runs it.
func (w *vfWorld) connect(cid string, protocol int) *vfClient {
	s := w.s
	conn := &wsConn{
		cid:         cid,
		request:     &http.Request{Header: http.Header{}, RemoteAddr: "127.0.0.1:1", RequestURI: "/"},
		serv:        s,
		subs:        make(map[string]*Subscription),
		queue:       make([]func(), 0, WSConnWorkerQueueSize),
		work:        make(chan struct{}, 1),
		protocolVer: protocol,
	}
	conn.connStr = "[" + conn.cid + "]"
	s.conns[conn.cid] = conn
	s.wg.Add(1)
	conn.subscribeConn()
	s.cache.AddConn(conn)
	cl := &vfClient{c: conn, nextID: 1}
	if zzvf.Symbolic() {
		conn.ws = &websocket.Conn{}
	} else {
		conn.ws, cl.sink = vfNativeWS()
	}
	w.clients = append(w.clients, cl)
	return cl
}

// lag makes the connection's worker busy (on) or lets it go on (off). Under
// the engine the scheduler simply does not run it; natively a worker goroutine
// may already be parked on the queue, so it is held by a blocking callback.
func (w *vfWorld) lag(cl *vfClient, on bool) {
	cl.lagging = on
	if zzvf.Symbolic() {
		return
	}
	if on {
		release := make(chan struct{})
		cl.release = release
		cl.c.Enqueue(func() { <-release })
		time.Sleep(time.Millisecond)
	} else if cl.release != nil {
		close(cl.release)
		cl.release = nil
	}
}

// drainLagged lets a lagging connection's worker handle what is queued and
// makes it busy again.
func (w *vfWorld) drainLagged(cl *vfClient) {
	if zzvf.Symbolic() {
		w.drainConn(cl)
		return
	}
	w.lag(cl, false)
	w.drainConn(cl)
	w.lag(cl, true)
}

// ---- scheduler primitives

// drainConn runs the connection's output worker until its queue is empty.
func (w *vfWorld) drainConn(cl *vfClient) bool {
	c := cl.c
	c.mu.Lock()
	n := len(c.queue)
	c.mu.Unlock()
	if n == 0 {
		return false
	}
	zzvf.RunUntilBlocked(c.outputWorker, func() bool {
		c.mu.Lock()
		defer c.mu.Unlock()
		return len(c.queue) == 0 && len(c.work) == 0
	})
	zzvf.Settle()
	return true
}

// cacheStep lets a cache worker process one scheduled EventSubscription.
func (w *vfWorld) cacheStep() bool {
	ok := rescache.VFCacheStep(w.s.cache)
	if ok {
		zzvf.Settle()
	}
	return ok
}

// settle runs every internal queue to completion (eager policy): cache
// workers first, then the connections in order, until nothing is left.
func (w *vfWorld) settle() {
	zzvf.Settle()
	idle := 0
	for i := 0; i < 200; i++ {
		progress := false
		for w.cacheStep() {
			progress = true
		}
		for _, cl := range w.clients {
			if !cl.lagging && w.drainConn(cl) {
				progress = true
			}
		}
		if !progress {
			if zzvf.Symbolic() || idle >= 3 {
				return
			}
			// native mode: goroutines started by `go` statements in the
			// code under test may still be about to enqueue work
			idle++
			time.Sleep(3 * time.Millisecond)
			continue
		}
		idle = 0
	}
	zzvf.Assert(false, "harness-settle-terminates")
}

// newFrames returns the frames written to the client since the last call.
func (w *vfWorld) newFrames(cl *vfClient) []string {
	var all []string
	if zzvf.Symbolic() {
		all = zzvf.WSFrames(cl.c.ws)
	} else {
		time.Sleep(time.Millisecond)
		all = cl.sink.snapshot()
	}
	out := all[cl.seen:]
	cl.seen = len(all)
	cl.frames = append(cl.frames, out...)
	return out
}

// send enqueues a client frame exactly as wsConn.listen does.
func (w *vfWorld) send(cl *vfClient, method string, params string) uint64 {
	id := cl.nextID
	cl.nextID++
	frame := `{"id":` + vfItoa(id) + `,"method":` + vfQuote(method)
	if params != "" {
		frame += `,"params":` + params
	}
	frame += `}`
	in := []byte(frame)
	c := cl.c
	c.Enqueue(func() {
		vfHandleRequest(in, c)
	})
	return id
}

// disconnect closes the connection the way wsConn.listen does on a read
// error, without waiting for the worker.
func (w *vfWorld) disconnect(cl *vfClient, before ...func()) {
	c := cl.c
	c.Enqueue(func() {
		// (what ran before this point ran for a live connection)
		for _, f := range before {
			f()
		}
		c.dispose()
	})
}

func vfItoa(n uint64) string {
	if n == 0 {
		return "0"
	}
	var b [20]byte
	i := len(b)
	for n > 0 {
		i--
		b[i] = byte('0' + n%10)
		n /= 10
	}
	return string(b[i:])
}

func vfQuote(s string) string {
	b, _ := json.Marshal(s)
	return string(b)
}

// ---- frames

type vfFrame struct {
	ID     *uint64         `json:"id"`
	Result json.RawMessage `json:"result"`
	Error  *struct {
		Code    string `json:"code"`
		Message string `json:"message"`
	} `json:"error"`
	Event string          `json:"event"`
	Data  json.RawMessage `json:"data"`
}

func vfParseFrame(f string) vfFrame {
	var fr vfFrame
	if err := json.Unmarshal([]byte(f), &fr); err != nil {
		zzvf.Assert(false, "gateway-frame-is-valid-json")
	}
	return fr
}

// ---- service payloads

func vfJSON(v interface{}) []byte {
	b, err := json.Marshal(v)
	if err != nil {
		zzvf.Assert(false, "harness-marshal")
	}
	return b
}
