//go:build verif

package server

import (
	"testing"

	"github.com/resgateio/resgate/zzvf"
)

func TestVFReplay(t *testing.T) { zzvf.RunReplay() }
