//go:build verif

package server

import (
	"encoding/json"
	"errors"
	"strings"

	"github.com/resgateio/resgate/server/codec"
	"github.com/resgateio/resgate/server/rescache"
	"github.com/resgateio/resgate/server/reserr"
	"github.com/resgateio/resgate/zzvf"
)

func init() {
	zzvf.Register("VF_C16_K1_Encoders", VF_C16_K1_Encoders)
}

type vfNode struct {
	rid   string
	isCol bool
	isErr bool
	keys  []string
	vals  []codec.Value
}

var vfEncKeys = []string{"a", "k\"q", "c\x01<>", "é "}

func vfNodeRIDn(i int) string { return "test.n" + string(rune('0'+i)) + ".x y" }

// vfRender is the reference renderer: recursive expansion with an explicit
// path; soft references and references re-entering the path are href only.
func vfRender(nodes []*vfNode, i int, path []int, flat bool, apiPath string, wrap bool) string {
	n := nodes[i]
	href := func(rid string) string {
		b, _ := json.Marshal(apiPath + strings.Replace(vfPathEscape(rid), ".", "/", -1))
		return string(b)
	}
	onPath := false
	for _, p := range path {
		if p == i {
			onPath = true
		}
	}
	if onPath {
		return `{"href":` + href(n.rid) + `}`
	}
	var body, field string
	switch {
	case n.isErr:
		field = "error"
		body = `{"code":"system.notFound","message":"Not found"}`
	default:
		val := func(v codec.Value) string {
			switch v.Type {
			case codec.ValueTypeReference:
				for j, m := range nodes {
					if m.rid == v.RID {
						return vfRender(nodes, j, append(append([]int{}, path...), i), flat, apiPath, true)
					}
				}
				return "null"
			case codec.ValueTypeSoftReference:
				return `{"href":` + href(v.RID) + `}`
			case codec.ValueTypeData:
				return string(v.Inner)
			}
			return string(v.RawMessage)
		}
		if n.isCol {
			field = "collection"
			parts := make([]string, len(n.vals))
			for k, v := range n.vals {
				parts[k] = val(v)
			}
			body = "[" + strings.Join(parts, ",") + "]"
		} else {
			field = "model"
			idx := make([]int, len(n.keys))
			for k := range idx {
				idx[k] = k
			}
			for a := 1; a < len(idx); a++ {
				for b := a; b > 0 && n.keys[idx[b]] < n.keys[idx[b-1]]; b-- {
					idx[b], idx[b-1] = idx[b-1], idx[b]
				}
			}
			parts := make([]string, 0, len(n.keys))
			for _, k := range idx {
				kb, _ := json.Marshal(n.keys[k])
				parts = append(parts, string(kb)+":"+val(n.vals[k]))
			}
			body = "{" + strings.Join(parts, ",") + "}"
		}
	}
	if flat || !wrap {
		return body
	}
	return `{"href":` + href(n.rid) + `,"` + field + `":` + body + `}`
}

// vfPathEscape mirrors url.PathEscape for the characters used here.
func vfPathEscape(s string) string {
	const hex = "0123456789ABCDEF"
	var sb strings.Builder
	for i := 0; i < len(s); i++ {
		c := s[i]
		if (c >= 'a' && c <= 'z') || (c >= 'A' && c <= 'Z') || (c >= '0' && c <= '9') || strings.IndexByte("-_.~$&+:=@", c) >= 0 {
			sb.WriteByte(c)
		} else {
			sb.WriteByte('%')
			sb.WriteByte(hex[c>>4])
			sb.WriteByte(hex[c&15])
		}
	}
	return sb.String()
}

func vfJSONEqual(a, b interface{}) bool {
	switch x := a.(type) {
	case map[string]interface{}:
		y, ok := b.(map[string]interface{})
		if !ok || len(x) != len(y) {
			return false
		}
		for k, v := range x {
			w, ok := y[k]
			if !ok || !vfJSONEqual(v, w) {
				return false
			}
		}
		return true
	case []interface{}:
		y, ok := b.([]interface{})
		if !ok || len(x) != len(y) {
			return false
		}
		for i := range x {
			if !vfJSONEqual(x[i], y[i]) {
				return false
			}
		}
		return true
	case string:
		y, ok := b.(string)
		return ok && x == y
	case float64:
		y, ok := b.(float64)
		return ok && x == y
	case bool:
		y, ok := b.(bool)
		return ok && x == y
	case nil:
		return b == nil
	}
	return false
}

// VF_C16_K1_Encoders: both HTTP encoders against the reference renderer on
// every graph of N subscriptions (models/collections/error leaves, slots
// holding primitives, references, soft references or data values; self
// references and cycles included), both encodings, two apiPath prefixes.
func VF_C16_K1_Encoders() {
	N := zzvf.Param("nodes")
	slots := zzvf.Param("slots")
	flat := zzvf.Param("flat") == 1
	apiPath := []string{"/api/", "/", "/api/v1.0/"}[zzvf.Param("api")]
	nodes := make([]*vfNode, N)
	for i := range nodes {
		nodes[i] = &vfNode{rid: vfNodeRIDn(i)}
	}
	for i, n := range nodes {
		switch zzvf.Choose("node-kind", 3) {
		case 1:
			n.isCol = true
		case 2:
			n.isErr = true
		}
		if n.isErr {
			continue
		}
		for s := 0; s < slots; s++ {
			var v codec.Value
			switch zzvf.Choose("slot", 5) {
			case 0:
				continue
			case 1:
				v = codec.Value{RawMessage: json.RawMessage(`"p<&>"`), Type: codec.ValueTypePrimitive}
			case 2:
				j := zzvf.Choose("ref-target", N)
				v = codec.Value{RawMessage: json.RawMessage(`{"rid":"` + nodes[j].rid + `"}`), Type: codec.ValueTypeReference, RID: nodes[j].rid}
			case 3:
				j := zzvf.Choose("soft-target", N)
				v = codec.Value{RawMessage: json.RawMessage(`{"rid":"` + nodes[j].rid + `","soft":true}`), Type: codec.ValueTypeSoftReference, RID: nodes[j].rid}
			case 4:
				v = codec.Value{RawMessage: json.RawMessage(`{"data":{"x":[1,{"y":null}]}}`), Type: codec.ValueTypeData, Inner: json.RawMessage(`{"x":[1,{"y":null}]}`)}
			}
			n.keys = append(n.keys, vfEncKeys[(i+s)%len(vfEncKeys)])
			n.vals = append(n.vals, v)
		}
	}
	// the real subscriptions
	c := vfBareConn()
	subs := make([]*Subscription, N)
	for i, n := range nodes {
		s := &Subscription{rid: n.rid, c: c, state: stateReady}
		switch {
		case n.isErr:
			s.err = reserr.ErrNotFound
		case n.isCol:
			s.typ = rescache.TypeCollection
			s.collection = &rescache.Collection{Values: n.vals}
		default:
			s.typ = rescache.TypeModel
			m := map[string]codec.Value{}
			for k := range n.keys {
				m[n.keys[k]] = n.vals[k]
			}
			s.model = &rescache.Model{Values: m}
		}
		subs[i] = s
	}
	for i, n := range nodes {
		for _, v := range n.vals {
			if v.Type == codec.ValueTypeReference {
				for j, m := range nodes {
					if m.rid == v.RID {
						if subs[i].refs == nil {
							subs[i].refs = map[string]*reference{}
						}
						subs[i].refs[v.RID] = &reference{sub: subs[j], count: 1}
					}
				}
			}
		}
	}
	var enc APIEncoder
	if flat {
		enc = &encoderJSONFlat{apiPath: apiPath}
	} else {
		enc = &encoderJSON{apiPath: apiPath}
	}
	zzvf.Reach("c16-built")
	out, err := enc.EncodeGET(subs[0])
	zzvf.Assert(err == nil, "encode-succeeds")
	want := vfRender(nodes, 0, nil, flat, apiPath, false)
	var got, exp interface{}
	gerr := json.Unmarshal(out, &got)
	if gerr != nil {
		zzvf.Note("output: " + string(out))
	}
	zzvf.Assert(gerr == nil, "output-is-well-formed-json")
	if json.Unmarshal([]byte(want), &exp) != nil {
		zzvf.Assert(false, "harness-reference-renderer-produces-json")
	}
	if !vfJSONEqual(got, exp) {
		zzvf.Note("got " + string(out) + " want " + want)
	}
	zzvf.Assert(vfJSONEqual(got, exp), "rendering-equals-recursive-expansion")
	_ = errors.New
}
