//go:build verif

package server

import (
	"errors"
	"net/http"
	"time"

	"github.com/resgateio/resgate/server/rescache"
	"github.com/resgateio/resgate/zzvf"
)

func init() {
	zzvf.Register("VF_C20_L1_Stop", VF_C20_L1_Stop)
}

var vfStopKinds = []vfReqKind{
	{method: "subscribe.test.model", verb: "subscribe", rid: "test.model"},
	{method: "call.test.model.set", params: `{"x":1}`, verb: "call", rid: "test.model"},
	{method: "subscribe.test.parent", verb: "subscribe", rid: "test.parent"},
}

// VF_C20_L1_Stop: the real Service.Start / Stop / handleClosedMQ around a
// bounded history. One or two WebSocket connections (optionally a pending
// HTTP request) with requests at every stage of completion; Stop(nil),
// Stop(err) or the messaging client's closed handler is injected at every
// step. While Stop waits (WaitGroup, select with time.After) the other actors
// run: closed sockets make their read loops dispose the connection, late
// service answers arrive, a second Stop and new HTTP / WebSocket requests
// come in. Stop must return without a timeout firing when every connection
// has a socket, close every socket, dispose every connection, report the
// cause exactly once on the stop channel and close it, refuse new requests;
// then Start must work again and serve a new connection, and a second Stop
// must report again.
func VF_C20_L1_Stop() {
	nconn := zzvf.Param("conns")
	nreq := zzvf.Param("reqs")
	withHTTP := zzvf.ParamOr("http", 0) == 1
	w := vfNewWorldOpt(Config{NoHTTP: true, APIPath: "/api/"}, false)
	s := w.s
	s.initWSHandler()
	zzvf.Assert(s.Start() == nil, "start-succeeds")
	stopCh := s.StopChannel()
	zzvf.Assert(stopCh != nil && w.mq.connects == 1 && w.mq.onClosed != nil, "start-connects-and-registers-the-closed-handler")
	var runs []*vfRun
	for i := 0; i < nconn; i++ {
		cl := w.connect("cid"+string(rune('A'+i)), versionLatest)
		runs = append(runs, vfNewRun(w, cl))
	}
	w.settle()
	var httpRec *vfRecorder
	zzvf.Reach("stop-start")
	// ---- a history, with the stop injected at any step
	issued := 0
	httpDone := !withHTTP
	for step := 0; step < 12; step++ {
		pend := vfAnswerable(w.mq.pending(), true, issued < nreq)
		nact := len(pend)
		issueAct, httpAct := -1, -1
		if issued < nreq {
			issueAct = nact
			nact++
		}
		if !httpDone {
			httpAct = nact
			nact++
		}
		stopAct := nact
		nact++
		a := zzvf.Choose("action", nact)
		if a == stopAct {
			break
		}
		switch {
		case a == issueAct:
			r := runs[issued%nconn]
			k := vfStopKinds[zzvf.Choose("kind", len(vfStopKinds))]
			issued++
			zzvf.Note("client " + r.cl.c.cid + ": " + k.method)
			r.issue(k)
		case a == httpAct:
			httpDone = true
			zzvf.Note("http: GET /api/test/model")
			httpRec, _ = w.vfHTTP("GET", "/api/test/model", "", "", http.Header{})
		default:
			req := pend[a]
			outs := vfOutcomes(req.subject, false)
			o := outs[zzvf.Choose("outcome", len(outs))]
			zzvf.Note("service: " + req.subject + " -> " + o.label)
			w.mq.answer(req, o.payload, o.err)
		}
		w.settle()
		for _, r := range runs {
			r.observe()
		}
	}
	// ---- the stop
	var cause error
	how := zzvf.Choose("stop-kind", 3)
	switch how {
	case 1:
		cause = errors.New("stopped by the operator with a cause")
	case 2:
		cause = errors.New("lost NATS connection: EOF")
	}
	httpPending := 0
	for _, c := range s.conns {
		if c.ws == nil {
			httpPending++
		}
	}
	disconnected := map[*vfClient]bool{}
	probes, second, late := 0, 0, 0
	// under the engine play runs only while Stop waits; natively Stop runs
	// in its own goroutine and may not have begun yet
	begun := func() bool {
		if zzvf.Symbolic() {
			return true
		}
		s.mu.Lock()
		defer s.mu.Unlock()
		return s.stopping || s.stop == nil
	}
	play := func() bool {
		progress := false
		// closed sockets end their read loops, which dispose the connection
		for _, cl := range w.clients {
			if cl.c.ws != nil && !disconnected[cl] && w.wsClosed(cl) {
				disconnected[cl] = true
				w.disconnect(cl)
				progress = true
			}
		}
		// requests arriving while the service is stopping are refused
		if probes == 0 && begun() {
			probes++
			n0 := len(w.mq.reqs)
			conns := len(s.conns)
			rec, tmp := w.vfHTTP("GET", "/api/test/other", "", "", http.Header{})
			// (natively the connection table changes concurrently)
			same := func() bool { return !zzvf.Symbolic() || (len(s.conns) == conns && len(w.mq.reqs) == n0) }
			zzvf.Assert(rec.status == 503 && tmp == nil && same(), "http-request-refused-while-stopping")
			rec2 := &vfRecorder{hdr: http.Header{}}
			hdr := http.Header{"Connection": {"Upgrade"}, "Upgrade": {"websocket"}, "Sec-Websocket-Version": {"13"}, "Sec-Websocket-Key": {"dGhlIHNhbXBsZSBub25jZQ=="}}
			s.wsHandler(rec2, &http.Request{Method: "GET", Header: hdr, RemoteAddr: "127.0.0.1:9", RequestURI: "/"})
			zzvf.Assert(same() && rec2.status == 0, "websocket-request-refused-while-stopping")
			progress = true
		}
		// a second Stop (another goroutine) returns at once and changes nothing
		if second == 0 && begun() {
			second++
			s.Stop(errors.New("a second stop"))
			progress = true
		}
		// a service answer may still arrive until the messaging client is closed
		if late == 0 && !w.mq.closed {
			if p := w.mq.pending(); len(p) > 0 && zzvf.Choose("late-answer", 2) == 1 {
				late++
				outs := vfOutcomes(p[0].subject, false)
				zzvf.Note("service (during stop): " + p[0].subject + " -> " + outs[0].label)
				w.mq.answer(p[0], outs[0].payload, outs[0].err)
				progress = true
			}
		}
		if !vfQuiescent(w) {
			progress = true
		}
		w.settle()
		return progress
	}
	finished := false
	t0 := time.Now()
	zzvf.OnBlock(play)
	zzvf.RunUntilBlocked(func() {
		if how == 2 {
			w.mq.onClosed(cause)
		} else {
			s.Stop(cause)
		}
		finished = true
	}, func() bool { return true })
	for i := 0; i < 3000 && !finished; i++ {
		play()
		if !zzvf.Symbolic() {
			time.Sleep(2 * time.Millisecond)
		}
	}
	zzvf.OnBlock(nil)
	zzvf.Assert(finished, "stop-returns")
	zzvf.Reach("stop-returned")
	timedOut := zzvf.TimeoutsFired() > 0
	if !zzvf.Symbolic() {
		timedOut = time.Since(t0) > 2500*time.Millisecond
	}
	if httpPending == 0 {
		zzvf.Assert(!timedOut, "stop-completes-without-timeout-when-every-connection-has-a-socket")
	}
	// the cause is reported exactly once, then the channel is closed
	select {
	case got, ok := <-stopCh:
		zzvf.Assert(ok && got == cause, "stop-channel-reports-the-cause")
	default:
		zzvf.Assert(false, "stop-channel-reports-the-cause")
	}
	select {
	case _, ok := <-stopCh:
		zzvf.Assert(!ok, "stop-channel-closed-after-the-report")
	default:
		zzvf.Assert(false, "stop-channel-closed-after-the-report")
	}
	zzvf.Assert(s.stop == nil && !s.stopping && s.StopChannel() == nil, "service-is-stopped")
	zzvf.Assert(w.mq.closes == 1 && w.mq.closed, "messaging-client-closed-once")
	// a stopped cache leaves no eviction pending that could fire into the
	// next Start of the same service
	zzvf.Assert(rescache.VFEvictionQueueLen(s.cache) == 0, "stopped-cache-has-no-eviction-pending")
	for _, cl := range w.clients {
		if cl.c.ws == nil {
			continue
		}
		zzvf.Assert(w.wsClosed(cl), "every-client-socket-closed")
		zzvf.Assert(cl.c.disposing && cl.c.subs == nil, "every-connection-disposed")
		_, in := s.conns[cl.c.cid]
		zzvf.Assert(!in, "every-connection-removed")
	}
	for _, r := range runs {
		n := len(r.cl.frames)
		r.observe()
		_ = n
	}
	if httpRec != nil {
		zzvf.Assert(httpRec.heads <= 1, "header-written-at-most-once")
	}
	// requests after the stop are refused as well
	n0 := len(w.mq.reqs)
	rec, tmp := w.vfHTTP("GET", "/api/test/other", "", "", http.Header{})
	zzvf.Assert(rec.status == 503 && tmp == nil && len(w.mq.reqs) == n0, "http-request-refused-when-stopped")
	zzvf.Reach("stop-checked")
	// ---- Start / Stop may be repeated
	zzvf.Assert(s.Start() == nil, "restart-succeeds")
	ch2 := s.StopChannel()
	zzvf.Assert(ch2 != nil && w.mq.connects == 2 && !w.mq.closed, "restart-connects-again")
	cl := w.connect("cidZ", versionLatest)
	r := vfNewRun(w, cl)
	r.issue(vfStopKinds[0])
	w.settle()
	for i := 0; i < 6; i++ {
		p := w.mq.pending()
		if len(p) == 0 {
			break
		}
		outs := vfOutcomes(p[0].subject, false)
		w.mq.answer(p[0], outs[0].payload, outs[0].err)
		w.settle()
	}
	r.observe()
	zzvf.Assert(r.issued[0].responses == 1 && r.issued[0].ok && r.gotData["test.model"], "restarted-service-serves-a-new-connection")
	finished = false
	disconnected = map[*vfClient]bool{}
	probes, second, late = 1, 1, 1
	zzvf.OnBlock(play)
	zzvf.RunUntilBlocked(func() { s.Stop(nil); finished = true }, func() bool { return true })
	for i := 0; i < 3000 && !finished; i++ {
		play()
		if !zzvf.Symbolic() {
			time.Sleep(2 * time.Millisecond)
		}
	}
	zzvf.OnBlock(nil)
	zzvf.Assert(finished, "second-stop-returns")
	select {
	case got, ok := <-ch2:
		zzvf.Assert(ok && got == nil, "second-stop-reports")
	default:
		zzvf.Assert(false, "second-stop-reports")
	}
	zzvf.Assert(w.wsClosed(cl) && cl.c.subs == nil && len(s.conns) == httpPendingLeft(s), "second-stop-closes-the-new-connection")
	zzvf.Reach("stop-restarted")
}

// httpPendingLeft counts temporary (socket-less) connections still registered.
func httpPendingLeft(s *Service) int {
	n := 0
	for _, c := range s.conns {
		if c.ws == nil {
			n++
		}
	}
	return n
}
