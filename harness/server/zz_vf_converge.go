//go:build verif

package server

import (
	"encoding/json"
	"strings"

	"github.com/resgateio/resgate/zzvf"
)

func init() {
	zzvf.Register("VF_C01_L1_Converge", VF_C01_L1_Converge)
}

// VF_C01_L1_Converge: a collection (or model) shared by two clients. Client
// A is subscribed from the start, client B subscribes at any position of a
// stream of K service events (add / remove with every index incl. one past
// the ends, values primitive or reference to a child; change for models;
// numbered custom events), its get/access answers arrive at any later
// position, and its connection worker may lag. At quiescence both clients'
// copies equal the service state; per client the numbered events are
// contiguous and ordered from the hand-over on.
func VF_C01_L1_Converge() {
	K := zzvf.Param("events")
	isModel := zzvf.Param("model") == 1
	lag := zzvf.Param("lag") == 1
	w := vfNewWorld(Config{})
	// legacy: both clients negotiated protocol 1.2.0 (soft references arrive
	// as plain rid strings, data values as the "[Data]" placeholder)
	// (legacy=2: client A on 1.2.0, client B on the latest version; legacy=3
	// the other way round - both share the cached model)
	lp := zzvf.ParamOr("legacy", 0)
	legacyA, legacyB := lp == 1 || lp == 2, lp == 1 || lp == 3
	protoOf := func(l bool) int {
		if l {
			return 1002000
		}
		return versionLatest
	}
	encFor := func(l bool, raw string) string {
		if !l {
			return raw
		}
		switch raw {
		case `{"rid":"test.soft","soft":true}`:
			return `"test.soft"`
		case `{"data":{"x":[1]}}`:
			return `"[Data]"`
		}
		return raw
	}
	clA := w.connect("cidA", protoOf(legacyA))
	clB := w.connect("cidB", protoOf(legacyB))
	rA, rB := vfNewRun(w, clA), vfNewRun(w, clB)
	refA, refB := vfNewRefClient(), vfNewRefClient()
	rid := "test.col"
	svcCol := []string{`"a"`, `"b"`}
	svcModel := map[string]string{"a": `"x"`}
	if zzvf.ParamOr("richinit", 0) == 1 {
		// the model holds a soft reference and a data value from the start,
		// so that clients of different protocol versions are served from
		// the same cached snapshot
		svcModel["s"] = `{"rid":"test.soft","soft":true}`
		svcModel["d"] = `{"data":{"x":[1]}}`
	}
	child := `{"model":{"n":1}}`
	get := func() string {
		if isModel {
			var sb strings.Builder
			sb.WriteString(`{"model":{`)
			first := true
			for _, k := range []string{"a", "b", "c", "d", "s"} {
				if v, ok := svcModel[k]; ok {
					if !first {
						sb.WriteByte(',')
					}
					first = false
					sb.WriteString(`"` + k + `":` + v)
				}
			}
			sb.WriteString(`}}`)
			return sb.String()
		}
		return `{"collection":[` + strings.Join(svcCol, ",") + `]}`
	}
	lastN := map[*vfRefClient]int{}
	// staleness: the service state after every state event (history), the
	// history length at which each numbered custom event was emitted, and
	// per client the earliest history entry its hand-over snapshot equals.
	// A custom event emitted before a state the client was handed must not
	// be delivered after the hand-over.
	history := []string{get()}
	customAt := map[int]int{}
	snapAt := map[*vfRefClient]int{}
	render := func(ref *vfRefClient) (string, bool) {
		res, ok := ref.store[rid]
		if !ok {
			return "", false
		}
		if res.typ == 'c' {
			return `{"collection":[` + strings.Join(res.col, ",") + `]}`, true
		}
		var sb strings.Builder
		sb.WriteString(`{"model":{`)
		first := true
		for _, k := range []string{"a", "b", "c", "d", "s"} {
			if v, ok := res.model[k]; ok {
				if !first {
					sb.WriteByte(',')
				}
				first = false
				sb.WriteString(`"` + k + `":` + v)
			}
		}
		sb.WriteString(`}}`)
		return sb.String(), true
	}
	observe := func() {
		for _, p := range []struct {
			r   *vfRun
			ref *vfRefClient
		}{{rA, refA}, {rB, refB}} {
			for _, fr := range p.r.observe() {
				if fr.ID != nil {
					it := p.r.findIssued(*fr.ID)
					if it != nil && it.kind.verb == "subscribe" {
						p.ref.pending[it.kind.rid]--
					}
					if it != nil && fr.Error == nil {
						p.ref.response(it.kind.verb, it.kind.rid, it.kind.count, fr.Result)
						if it.kind.verb == "subscribe" && it.kind.rid == rid && lp == 0 {
							if snap, ok := render(p.ref); ok {
								for e, h := range history {
									if h == snap {
										snapAt[p.ref] = e
										break
									}
								}
							}
						}
					}
					continue
				}
				erid, name := p.ref.event(fr.Event, fr.Data)
				if erid == rid && name == "custom" {
					var d struct {
						N int `json:"n"`
					}
					json.Unmarshal(fr.Data, &d)
					zzvf.Reach("c01l1-custom-delivered")
					if e, ok := snapAt[p.ref]; ok && lp == 0 {
						if customAt[d.N] < e {
							zzvf.Note("custom event " + vfItoa(uint64(d.N)) + " predates the state the client was handed")
						}
						zzvf.Assert(customAt[d.N] >= e, "no-event-older-than-the-handed-over-state")
					}
					if last, ok := lastN[p.ref]; ok {
						zzvf.Assert(d.N == last+1, "numbered-events-contiguous-and-ordered")
					}
					lastN[p.ref] = d.N
				}
			}
		}
	}
	answerAll := func(r *vfRun) {
		for i := 0; i < 10; i++ {
			pend := w.mq.pending()
			if len(pend) == 0 {
				return
			}
			q := pend[0]
			switch {
			case strings.HasPrefix(q.subject, "access."):
				w.mq.answer(q, []byte(`{"result":{"get":true}}`), nil)
			case q.subject == "get.test.model":
				w.mq.answer(q, []byte(`{"result":`+child+`}`), nil)
			default:
				w.mq.answer(q, []byte(`{"result":`+get()+`}`), nil)
			}
			w.settle()
		}
	}
	// A subscribes first and is served at once
	refA.pending[rid]++
	rA.issue(vfReqKind{method: "subscribe." + rid, verb: "subscribe", rid: rid})
	w.settle()
	answerAll(rA)
	observe()
	zzvf.Assert(rA.count[rid] == 1, "harness-established-subscription")
	zzvf.Reach("c01l1-established")
	if lag {
		w.lag(clB, true)
	}
	bIssued := zzvf.ParamOr("nob", 0) == 1
	sent, customN := 0, 0
	for step := 0; step < 40; step++ {
		pend := vfAnswerable(w.mq.pending(), sent < K || !bIssued, !bIssued)
		nact := len(pend)
		evAct, subAct, drainAct := -1, -1, -1
		if sent < K {
			evAct = nact
			nact++
		}
		if !bIssued {
			subAct = nact
			nact++
		}
		if lag {
			clB.c.mu.Lock()
			q := len(clB.c.queue)
			clB.c.mu.Unlock()
			if q > 0 {
				drainAct = nact
				nact++
			}
		}
		if nact == 0 {
			break
		}
		a := zzvf.Choose("action", nact)
		switch {
		case a == evAct:
			sent++
			if isModel {
				switch zzvf.Choose("event-kind", 4) {
				case 0:
					key := []string{"a", "b"}[zzvf.Choose("key", 2)]
					vals := []string{`"x"`, `"y"`, `{"rid":"test.model"}`}
					if zzvf.ParamOr("rich", 0) == 1 {
						vals = append(vals, `{"rid":"test.soft","soft":true}`, `{"data":{"x":[1]}}`)
					}
					val := vals[zzvf.Choose("value", len(vals))]
					if zzvf.ParamOr("rich", 0) == 1 && zzvf.Choose("with-reference", 2) == 1 {
						// the same event also introduces a resource reference
						svcModel["c"] = `{"rid":"test.model"}`
						svcModel[key] = val
						zzvf.Note("event: change " + key + "=" + val + " and c -> test.model")
						w.mq.event("event."+rid, "change", []byte(`{"values":{"`+key+`":`+val+`,"c":{"rid":"test.model"}}}`))
						break
					}
					svcModel[key] = val
					zzvf.Note("event: change " + key + "=" + val)
					w.mq.event("event."+rid, "change", []byte(`{"values":{"`+key+`":`+val+`}}`))
				case 1:
					key := []string{"a", "b"}[zzvf.Choose("key", 2)]
					delete(svcModel, key)
					zzvf.Note("event: change " + key + " deleted")
					w.mq.event("event."+rid, "change", []byte(`{"values":{"`+key+`":{"action":"delete"}}}`))
				case 2:
					// inapplicable on a model: must be ignored as a whole
					zzvf.Note("event: add on a model")
					w.mq.event("event."+rid, "add", []byte(`{"idx":0,"value":1}`))
				case 3:
					customN++
					customAt[customN] = len(history) - 1
					zzvf.Note("event: custom " + vfItoa(uint64(customN)))
					w.mq.event("event."+rid, "custom", []byte(`{"n":`+vfItoa(uint64(customN))+`}`))
				}
				break
			}
			switch zzvf.Choose("event-kind", 3+zzvf.ParamOr("reaccess", 0)) {
			case 3:
				zzvf.Note("event: reaccess")
				w.mq.event("event."+rid, "reaccess", nil)
			case 0:
				idx, val := 0, `{"rid":"test.model"}`
				if zzvf.ParamOr("fixedadd", 0) == 0 {
					idx = zzvf.Choose("idx", len(svcCol)+3) - 1 // -1 .. len+1
					val = []string{`"v"`, `{"rid":"test.model"}`}[zzvf.Choose("value", 2)]
				}
				if idx >= 0 && idx <= len(svcCol) {
					col := append([]string{}, svcCol[:idx]...)
					col = append(col, val)
					svcCol = append(col, svcCol[idx:]...)
				}
				zzvf.Note("event: add " + val + " at " + vfItoa(uint64(idx+1)) + "-1")
				w.mq.event("event."+rid, "add", []byte(`{"idx":`+vfSigned(idx)+`,"value":`+val+`}`))
			case 1:
				idx := zzvf.Choose("idx", len(svcCol)+2) - 1 // -1 .. len
				if idx >= 0 && idx < len(svcCol) {
					col := append([]string{}, svcCol[:idx]...)
					svcCol = append(col, svcCol[idx+1:]...)
				}
				zzvf.Note("event: remove at " + vfItoa(uint64(idx+1)) + "-1")
				w.mq.event("event."+rid, "remove", []byte(`{"idx":`+vfSigned(idx)+`}`))
			case 2:
				customN++
				customAt[customN] = len(history) - 1
				zzvf.Note("event: custom " + vfItoa(uint64(customN)))
				w.mq.event("event."+rid, "custom", []byte(`{"n":`+vfItoa(uint64(customN))+`}`))
			}
		case a == subAct:
			bIssued = true
			zzvf.Note("client B: subscribe")
			refB.pending[rid]++
			rB.issue(vfReqKind{method: "subscribe." + rid, verb: "subscribe", rid: rid})
		case a == drainAct:
			zzvf.Note("B's worker runs")
			w.drainLagged(clB)
		default:
			q := pend[a]
			zzvf.Note("service answers " + q.subject)
			switch {
			case strings.HasPrefix(q.subject, "access."):
				w.mq.answer(q, []byte(`{"result":{"get":true}}`), nil)
			case q.subject == "get.test.model":
				w.mq.answer(q, []byte(`{"result":`+child+`}`), nil)
			default:
				w.mq.answer(q, []byte(`{"result":`+get()+`}`), nil)
			}
		}
		if h := get(); h != history[len(history)-1] {
			history = append(history, h)
		}
		w.settle()
		observe()
	}
	if lag {
		w.lag(clB, false)
	}
	w.settle()
	observe()
	zzvf.Assert(vfQuiescent(w), "run-reaches-quiescence")
	zzvf.Reach("c01l1-quiescent")
	for _, ref := range []*vfRefClient{refA, refB} {
		res, ok := ref.store[rid]
		if ref == refB && (!bIssued || zzvf.ParamOr("nob", 0) == 1) {
			continue
		}
		zzvf.Assert(ok, "subscribed-client-holds-the-resource")
		if !ok {
			continue
		}
		if isModel {
			enc := func(raw string) string { return encFor(legacyA, raw) }
			if ref == refB {
				enc = func(raw string) string { return encFor(legacyB, raw) }
			}
			same := len(res.model) == len(svcModel)
			for k, v := range svcModel {
				if res.model[k] != enc(v) {
					same = false
					zzvf.Note("key " + k + ": client " + res.model[k] + " service " + enc(v))
				}
			}
			zzvf.Assert(same, "client-copy-equals-service-state")
		} else {
			same := len(res.col) == len(svcCol)
			for i := range svcCol {
				if i < len(res.col) && res.col[i] != svcCol[i] {
					same = false
				}
			}
			if !same {
				zzvf.Note("client copy [" + strings.Join(res.col, ",") + "] service [" + strings.Join(svcCol, ",") + "]")
			}
			zzvf.Assert(same, "client-copy-equals-service-state")
		}
		if c, ok := ref.store["test.model"]; ok {
			zzvf.Assert(c.typ == 'm' && c.model["n"] == "1", "child-copy-equals-service-state")
		}
	}
}

func vfSigned(i int) string {
	if i < 0 {
		return "-" + vfItoa(uint64(-i))
	}
	return vfItoa(uint64(i))
}
