//go:build verif

package server

import (
	"encoding/json"
	"io"
	"net/http"
	"net/url"
	"strings"
	"sync"

	"github.com/resgateio/resgate/zzvf"
)

func init() {
	zzvf.Register("VF_C17_L1_HTTP", VF_C17_L1_HTTP)
}

type vfRecorder struct {
	mu     sync.Mutex
	hdr    http.Header
	status int
	writes int
	body   []byte
	heads  int
}

func (r *vfRecorder) Header() http.Header { return r.hdr }
func (r *vfRecorder) Write(b []byte) (int, error) {
	r.mu.Lock()
	defer r.mu.Unlock()
	if r.status == 0 {
		r.status = 200
	}
	r.writes++
	r.body = append(r.body, b...)
	return len(b), nil
}
func (r *vfRecorder) WriteHeader(code int) {
	r.mu.Lock()
	defer r.mu.Unlock()
	r.heads++
	if r.status == 0 {
		r.status = code
	}
}

// vfHTTP runs one HTTP request through Service.apiHandler; the handler's
// goroutine parks on its done channel while the harness plays the services.
func (w *vfWorld) vfHTTP(method, path, rawQuery, body string, hdr http.Header) (*vfRecorder, *vfClient) {
	rec := &vfRecorder{hdr: http.Header{}}
	req := &http.Request{Method: method, URL: &url.URL{Path: path, RawQuery: rawQuery}, Header: hdr, Body: io.NopCloser(strings.NewReader(body)), RemoteAddr: "127.0.0.1:9", RequestURI: path}
	before := map[string]bool{}
	for cid := range w.s.conns {
		before[cid] = true
	}
	sp := zzvf.Spawned()
	zzvf.RunUntilBlocked(func() { w.s.apiHandler(rec, req) }, func() bool { return true })
	zzvf.DropSpawnedFrom(sp)
	var cl *vfClient
	for cid, c := range w.s.conns {
		if !before[cid] {
			cl = &vfClient{c: c, nextID: 1}
			w.clients = append(w.clients, cl)
		}
	}
	return rec, cl
}

// VF_C17_L1_HTTP: HTTP requests against an origin allow-list, with or
// without header authentication, with service meta on the auth / access /
// call / get answers carrying a symbolic status and protected headers.
func VF_C17_L1_HTTP() {
	method := []string{"GET", "POST", "OPTIONS", "HEAD", "PUT"}[zzvf.Param("method")]
	headerAuth := zzvf.Param("headerauth") == 1
	cfg := Config{APIPath: "/api/"}
	cfg.allowOrigin = []string{"http://allowed.example"}
	cfg.allowMethods = "GET, HEAD, OPTIONS, POST"
	if headerAuth {
		ha := "auth.vault.login"
		cfg.HeaderAuth = &ha
		cfg.headerAuthRID = "auth.vault"
		cfg.headerAuthAction = "login"
	}
	w := vfNewWorld(cfg)
	hdr := http.Header{}
	originOK := true
	switch zzvf.Choose("origin", 5) {
	case 4: // two Origin header lines, neither of them listed
		hdr["Origin"] = []string{"http://evil.example", "http://evil2.example"}
		originOK = false
	case 0: // no Origin header
	case 1:
		hdr["Origin"] = []string{"null"}
	case 2:
		hdr["Origin"] = []string{"HTTP://Allowed.Example"}
	case 3:
		hdr["Origin"] = []string{"http://evil.example"}
		originOK = false
	}
	path := "/api/test/model"
	if method == "POST" {
		path = "/api/test/model/act"
	}
	// an invalid resource path (an empty token) is refused before anything
	// is asked of a service, header authentication included
	badPath := method != "OPTIONS" && method != "PUT" && originOK && zzvf.Choose("path", 2) == 1
	if badPath {
		path = strings.Replace(path, "/test/", "/test//", 1)
	}
	zzvf.Reach("c17l1-start")
	rec, cl := w.vfHTTP(method, path, "", "", hdr)
	if badPath {
		w.settle()
		zzvf.Assert(len(w.mq.reqs) == 0, "invalid-path-causes-no-service-traffic")
		if len(w.mq.reqs) == 0 {
			zzvf.Assert(rec.status == 404, "invalid-path-is-404")
		}
		return
	}
	if method == "OPTIONS" {
		zzvf.Assert(len(w.mq.reqs) == 0 && cl == nil, "preflight-causes-no-service-traffic")
		if !originOK {
			zzvf.Assert(rec.hdr.Get("Access-Control-Allow-Origin") != "http://evil.example", "preflight-does-not-echo-unlisted-origin")
		}
		return
	}
	if !originOK {
		zzvf.Reach("c17l1-forbidden")
		zzvf.Assert(rec.status == 403, "unlisted-origin-refused-with-403")
		zzvf.Assert(len(w.mq.reqs) == 0 && cl == nil, "unlisted-origin-causes-no-service-traffic")
		return
	}
	if method == "PUT" {
		zzvf.Assert(rec.status == 405 && len(w.mq.reqs) == 0, "unmapped-method-is-405-without-traffic")
		return
	}
	zzvf.Assert(cl != nil, "harness-found-temporary-connection")
	if cl == nil {
		return
	}
	w.settle()
	// play the services: every answer may carry a meta object with a
	// symbolic status and headers that try to replace protected ones
	reqsAtDirect := 0
	errCode := "" // the first service error answered (decides the status)
	trigger := zzvf.ParamOr("trigger", 0) == 1
	tokenSent := false
	resourceAnswer := false  // the call was answered with a resource response
	var metaCookies []string // Set-Cookie values supplied by the metas answered so far
	direct := false          // a direct-response status has ended the request
	var directStatus int
	for step := 0; step < 8; step++ {
		pend := w.mq.pending()
		if len(pend) == 0 {
			break
		}
		if direct {
			// requests issued before the status arrived may still be open;
			// none may be started afterwards
			zzvf.Assert(len(w.mq.reqs) == reqsAtDirect, "no-service-request-after-a-direct-response-status")
		}
		q := pend[0]
		if trigger && strings.HasPrefix(q.subject, "get.") {
			// a reaccess event reaches the resource while the request loads it
			trigger = false
			zzvf.Note("event: reaccess on test.model while loading")
			w.mq.event("event.test.model", "reaccess", nil)
			w.settle()
		}
		if strings.HasPrefix(q.subject, "access.") && !tokenSent && zzvf.ParamOr("tokenevent", 0) == 1 && zzvf.Choose("token-event-while-access-pending", 2) == 1 {
			// the service sets the connection's token while the access
			// request is unanswered: what follows carries the new token
			tokenSent = true
			zzvf.Note("event: conn token while the access request is pending")
			w.mq.event("conn."+cl.c.cid, "token", []byte(`{"token":{"t":2}}`))
			w.settle()
		}
		if strings.HasPrefix(q.subject, "call.") && tokenSent {
			var p struct {
				Token json.RawMessage `json:"token"`
				CID   string          `json:"cid"`
			}
			json.Unmarshal(q.payload, &p)
			zzvf.Reach("c17l1-token-checked")
			zzvf.Assert(string(p.Token) == `{"t":2}` && p.CID == cl.c.cid, "call-request-carries-the-connections-current-token")
		}
		if !strings.HasPrefix(q.subject, "auth.") && errCode == "" && zzvf.ParamOr("errors", 0) == 1 {
			codes := []string{"", "system.notFound", "system.methodNotFound", "system.accessDenied", "system.timeout", "system.internalError", "system.invalidParams"}
			if k := zzvf.Choose("error-answer", len(codes)); k > 0 {
				errCode = codes[k]
				zzvf.Note("service: " + q.subject + " -> error " + errCode)
				if !strings.HasPrefix(q.subject, "get.") && zzvf.Choose("error-with-meta", 2) == 1 {
					// an error answer may carry a meta object too; header
					// names come in any letter case
					kind := q.subject[:strings.IndexByte(q.subject, '.')]
					metaCookies = append(metaCookies, kind+"=1")
					w.mq.answer(q, []byte(`{"error":{"code":"`+errCode+`","message":"x"},"meta":{"header":{"content-type":["text/evil"],"access-control-allow-origin":["*"],"sec-websocket-protocol":["evil"],"access-control-allow-credentials":["evil"],"set-cookie":["`+kind+`=1"],"x-svc":["1"]}}}`), nil)
				} else {
					w.mq.answer(q, vfErrPayload(errCode, "x"), nil)
				}
				w.settle()
				continue
			}
		}
		withMeta := zzvf.Choose("meta", 2) == 1 && !strings.HasPrefix(q.subject, "get.")
		st := 0
		if withMeta {
			st = zzvf.Int("status")
			// the status travels as a JSON number
			zzvf.Assume(zzvf.And(st >= -1000, st <= 100000))
			zzvf.Tag("meta-status")
		}
		var payload []byte
		kind := q.subject[:strings.IndexByte(q.subject, '.')]
		build := func(inner string) []byte {
			if !withMeta {
				return []byte(`{` + inner + `}`)
			}
			p := vfJSON(struct {
				Status int                 `json:"status"`
				Header map[string][]string `json:"header"`
			}{st, map[string][]string{"content-type": {"text/evil"}, "Access-Control-Allow-Origin": {"*"}, "set-cookie": {kind + "=1"}, "X-Svc": {"1"}}})
			metaCookies = append(metaCookies, kind+"=1")
			return append(append([]byte(`{`+inner+`,"meta":`), p...), '}')
		}
		switch {
		case strings.HasPrefix(q.subject, "auth."):
			payload = build(`"result":null`)
		case strings.HasPrefix(q.subject, "access."):
			payload = build(`"result":{"get":true,"call":"*"}`)
		case strings.HasPrefix(q.subject, "call."):
			switch zzvf.Choose("call-answer", 4) {
			case 0:
				payload = build(`"result":{"ok":[1,2]}`)
			case 1:
				payload = build(`"result":null`)
			case 2:
				resourceAnswer = true
				payload = build(`"resource":{"rid":"test.other.x-y"}`)
			case 3:
				// a resource response naming a query resource
				resourceAnswer = true
				payload = build(`"resource":{"rid":"test.other?q=1"}`)
			}
		default:
			payload = []byte(`{"result":{"model":{"a":1}}}`)
		}
		zzvf.Note("service: " + q.subject)
		w.mq.answer(q, payload, nil)
		w.settle()
		if withMeta {
			in := st >= 300 && st <= 599
			if in && !direct {
				direct = true
				directStatus = st
				reqsAtDirect = len(w.mq.reqs)
			}
		}
	}
	// nothing is requested for the temporary connection once it has answered
	responded := len(w.mq.reqs)
	for i := 0; i < 6 && len(w.mq.pending()) > 0; i++ {
		for _, q := range w.mq.pending() {
			w.mq.answer(q, []byte(`{"result":{"get":true,"model":{"a":1}}}`), nil)
		}
		w.settle()
	}
	if rec.status != 0 {
		zzvf.Assert(len(w.mq.reqs) == responded, "no-service-request-after-the-http-response")
	}
	zzvf.Assert(vfQuiescent(w), "run-reaches-quiescence")
	// Set-Cookie values of every meta accumulate, also when a later
	// answer is an error
	for _, ck := range metaCookies {
		found := false
		for _, v := range rec.hdr["Set-Cookie"] {
			if v == ck {
				found = true
			}
		}
		if !found {
			zzvf.Note("Set-Cookie " + ck + " of an answered meta is missing in the response")
		}
		zzvf.Assert(found, "set-cookie-values-of-all-metas-accumulate")
	}
	// protected headers
	ct := rec.hdr["Content-Type"]
	for _, v := range ct {
		zzvf.Assert(v != "text/evil", "meta-cannot-replace-content-type")
	}
	for _, v := range rec.hdr["Access-Control-Allow-Origin"] {
		zzvf.Assert(v != "*", "meta-cannot-replace-allow-origin")
	}
	for k, vs := range rec.hdr {
		for _, v := range vs {
			zzvf.Assert(v != "text/evil" && v != "evil" && !(v == "*" && strings.ToLower(k) == "access-control-allow-origin"), "meta-cannot-set-a-protected-header-in-any-letter-case")
		}
	}
	if errCode != "" && !direct {
		want := map[string]int{"system.notFound": 404, "system.methodNotFound": 404, "system.accessDenied": 401, "system.timeout": 404, "system.internalError": 500, "system.invalidParams": 400}[errCode]
		zzvf.Reach("c17l1-error")
		zzvf.Assert(rec.status == want, "service-error-maps-to-its-fixed-status")
		return
	}
	if direct {
		zzvf.Assert(len(w.mq.reqs) == reqsAtDirect, "no-service-request-after-a-direct-response-status")
	}
	zzvf.Reach("c17l1-answered")
	zzvf.Assert(rec.status >= 100 && rec.status <= 999, "status-code-is-a-valid-http-status")
	zzvf.Assert(rec.heads <= 1, "header-written-at-most-once")
	if direct {
		zzvf.Reach("c17l1-direct")
		zzvf.Assert(rec.status == directStatus, "direct-response-status-is-honoured")
	} else {
		switch method {
		case "GET", "HEAD":
			zzvf.Assert(rec.status == 200, "get-succeeds-with-200")
		case "POST":
			zzvf.Assert(rec.status == 200 || rec.status == 204, "post-succeeds-with-200-or-204")
			if resourceAnswer {
				loc := rec.hdr.Get("Location")
				zzvf.Assert(rec.status == 200 && strings.HasPrefix(loc, "/api/test/other"), "resource-response-gives-200-with-location")
			}
		}
	}
	_, ok := cl.c.serv.conns[cl.c.cid]
	zzvf.Assert(!ok, "temporary-connection-disposed")
}
