//go:build verif

package rpc

import (
	"encoding/json"

	"github.com/resgateio/resgate/zzvf"
)

func init() {
	zzvf.Register("VF_C07_K1_Dispatch", VF_C07_K1_Dispatch)
}

type vfRecReq struct {
	replies  [][]byte
	calls    int
	verb     string
	rid      string
	method   string
	count    int
	cbGet    func(data *Resources, err error)
	cbUnsub  func(ok bool)
	cbCall   func(result interface{}, err error)
	protocol int
}

func (r *vfRecReq) Reply(data []byte) { r.replies = append(r.replies, data) }
func (r *vfRecReq) GetResource(rid string, cb func(data *Resources, err error)) {
	r.calls++
	r.verb, r.rid, r.cbGet = "get", rid, cb
}
func (r *vfRecReq) SubscribeResource(rid string, cb func(data *Resources, err error)) {
	r.calls++
	r.verb, r.rid, r.cbGet = "subscribe", rid, cb
}
func (r *vfRecReq) UnsubscribeResource(rid string, count int, cb func(ok bool)) {
	r.calls++
	r.verb, r.rid, r.count, r.cbUnsub = "unsubscribe", rid, count, cb
}
func (r *vfRecReq) CallResource(rid, action string, params interface{}, cb func(result interface{}, err error)) {
	r.calls++
	r.verb, r.rid, r.method, r.cbCall = "call", rid, action, cb
}
func (r *vfRecReq) AuthResource(rid, action string, params interface{}, cb func(result interface{}, err error)) {
	r.calls++
	r.verb, r.rid, r.method, r.cbCall = "auth", rid, action, cb
}
func (r *vfRecReq) NewResource(rid string, params interface{}, cb func(result interface{}, err error)) {
	r.calls++
	r.verb, r.rid, r.cbCall = "new", rid, cb
}
func (r *vfRecReq) SetVersion(protocol string) (string, error) { return "1.2.3", nil }
func (r *vfRecReq) ProtocolVersion() int                       { return 1002003 }

func vfTokOK(c byte) bool {
	return c >= 33 && c <= 126 && c != '*' && c != '>' && c != '?' && c != '.'
}

// vfValidRID: subject grammar for the name part; query after the first ?.
func vfValidRID(s string) bool {
	tok := 0
	for i := 0; i < len(s); i++ {
		c := s[i]
		if c == '?' {
			return tok > 0
		}
		if c == '.' {
			if tok == 0 {
				return false
			}
			tok = 0
			continue
		}
		if !vfTokOK(c) {
			return false
		}
		tok++
	}
	return tok > 0
}

func vfValidPart(s string) bool {
	if len(s) == 0 {
		return false
	}
	for i := 0; i < len(s); i++ {
		if !vfTokOK(s[i]) {
			return false
		}
	}
	return true
}

var vfPrefixes = []string{"", "get.", "subscribe.", "unsubscribe.", "call.", "auth.", "new.", "version", "call.a.", "get.a", "new.a?"}

type vfUnsubFrame struct {
	ID     uint64 `json:"id"`
	Method string `json:"method"`
	Params struct {
		Count int `json:"count"`
	} `json:"params"`
}

type vfFrameReq struct {
	ID     uint64          `json:"id"`
	Method string          `json:"method"`
	Params json.RawMessage `json:"params,omitempty"`
}

// VF_C07_K1_Dispatch: the request dispatcher for every method string
// prefix+tail (tail = n symbolic bytes): exactly one reply carrying the id -
// either at once, or after the single requester callback it registered is
// invoked once; whatever it hands to the requester is grammatical (C14);
// the unsubscribe count parameter is a full-width symbolic integer (C08).
func VF_C07_K1_Dispatch() {
	n := zzvf.Param("n")
	prefix := vfPrefixes[zzvf.Param("prefix")]
	method := prefix + zzvf.Str("tail", n)
	rec := &vfRecReq{}
	var frame []byte
	symCount := false
	count := 0
	pcase := zzvf.Choose("params", 7)
	switch pcase {
	case 0:
		frame, _ = json.Marshal(vfFrameReq{ID: 7, Method: method})
	case 1:
		frame, _ = json.Marshal(vfFrameReq{ID: 7, Method: method, Params: json.RawMessage(`null`)})
	case 2:
		frame, _ = json.Marshal(vfFrameReq{ID: 7, Method: method, Params: json.RawMessage(`{"count":"x"}`)})
	case 4:
		// params present without a count: the default applies
		frame, _ = json.Marshal(vfFrameReq{ID: 7, Method: method, Params: json.RawMessage(`{}`)})
	case 5:
		frame, _ = json.Marshal(vfFrameReq{ID: 7, Method: method, Params: json.RawMessage(`{"count":null}`)})
	case 6:
		frame, _ = json.Marshal(vfFrameReq{ID: 7, Method: method, Params: json.RawMessage(`{"foo":"bar"}`)})
	case 3:
		symCount = true
		count = zzvf.Int("count")
		f := vfUnsubFrame{ID: 7, Method: method}
		f.Params.Count = count
		frame, _ = json.Marshal(f)
	}
	zzvf.Reach("c07k1-frame")
	err := HandleRequest(frame, rec)
	zzvf.Assert(err == nil, "wellformed-frame-is-handled")
	total := len(rec.replies) + rec.calls
	zzvf.Assert(total == 1, "exactly-one-reply-or-one-requester-call")
	// a grammatical unsubscribe whose params carry no count, or a positive
	// one, is dispatched (count defaults to 1)
	if prefix == "unsubscribe." && vfValidRID(method[len(prefix):]) && (pcase != 2 && (pcase != 3 || count > 0)) {
		zzvf.Reach("c07k1-unsubscribe-dispatched")
		zzvf.Assert(rec.calls == 1 && rec.verb == "unsubscribe", "valid-unsubscribe-is-dispatched")
	}
	if rec.calls == 1 {
		zzvf.Reach("c07k1-dispatched")
		zzvf.Assert(vfValidRID(rec.rid), "dispatched-rid-is-grammatical")
		if rec.verb == "call" || rec.verb == "auth" {
			zzvf.Assert(vfValidPart(rec.method), "dispatched-method-is-one-safe-token")
		}
		if rec.verb == "unsubscribe" {
			if symCount {
				zzvf.Assert(rec.count == count && count > 0, "unsubscribe-count-passed-and-positive")
			} else {
				zzvf.Assert(rec.count == 1, "unsubscribe-count-defaults-to-1")
			}
		}
		// complete the requester callback once: exactly one reply follows
		switch rec.verb {
		case "get", "subscribe":
			rec.cbGet(&Resources{}, nil)
		case "unsubscribe":
			rec.cbUnsub(zzvf.Bool("unsub-ok"))
		default:
			rec.cbCall(CallPayloadResult{Payload: json.RawMessage(`1`)}, nil)
		}
		zzvf.Assert(len(rec.replies) == 1, "one-reply-after-callback")
	}
	var rep struct {
		ID    *uint64 `json:"id"`
		Error *struct {
			Code string `json:"code"`
		} `json:"error"`
	}
	zzvf.Assert(json.Unmarshal(rec.replies[0], &rep) == nil && rep.ID != nil && *rep.ID == 7, "reply-carries-the-request-id")
	if rec.calls == 0 && prefix != "version" {
		zzvf.Assert(rep.Error != nil, "undispatched-request-gets-an-error")
		if symCount && rep.Error.Code == "system.invalidParams" {
			zzvf.Reach("c07k1-invalid-count")
		}
	}
}
