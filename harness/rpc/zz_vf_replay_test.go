//go:build verif

package rpc

import (
	"testing"

	"github.com/resgateio/resgate/zzvf"
)

func TestVFReplay(t *testing.T) { zzvf.RunReplay() }
