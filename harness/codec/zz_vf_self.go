//go:build verif

package codec

import (
	"encoding/json"
	"net/textproto"
	"net/url"
	"sort"
	"strconv"
	"strings"
	"unicode/utf8"

	"github.com/resgateio/resgate/server/reserr"
	"github.com/resgateio/resgate/zzvf"
)

func init() {
	zzvf.Register("VFSelf_Codec", VFSelf_Codec)
}

// VFSelf_Codec is the differential self-test of the engine: concrete inputs,
// expected results fixed from the gc-compiled behaviour (the repo's own test
// tables among them). It must pass both under the engine and natively.
func VFSelf_Codec() {
	zzvf.Reach("self-start")
	// --- the repo's TestIsValidRID table
	rids := []struct {
		rid   string
		query bool
		want  bool
	}{
		{"test", true, true}, {"test.model", true, true}, {"test.model._hej_", true, true},
		{"test.model.<strange", true, true}, {"test.model.23", true, true}, {"test.model.23?", true, true},
		{"test.model.23?foo=bar", true, true}, {"test.model.23?foo=test.bar", true, true},
		{"test.model.23?foo=*&?", true, true}, {"", true, false}, {".test", true, false},
		{"test.", true, false}, {".test.model", true, false}, {"test..model", true, false},
		{"test.model.", true, false}, {".test.model", true, false}, {"test\tmodel", true, false},
		{"test\nmodel", true, false}, {"test\rmodel", true, false}, {"test model", true, false},
		{"test�model", true, false}, {"täst.model", true, false}, {"test.*.model", true, false},
		{"test.>.model", true, false}, {"test.model.>", true, false}, {"?foo=test.bar", true, false},
		{".test.model?foo=test.bar", true, false}, {"test..model?foo=test.bar", true, false},
		{"test.model?foo", false, false}, {"test.model", false, true},
	}
	for _, r := range rids {
		zzvf.Assert(IsValidRID(r.rid, r.query) == r.want, "self-isvalidrid-table")
	}
	// --- integer semantics
	var i8 int8 = 127
	i8++
	zzvf.Assert(i8 == -128, "self-int8-wrap")
	var u8 uint8 = 3
	u8 -= 5
	zzvf.Assert(u8 == 254, "self-uint8-wrap")
	x := -7
	zzvf.Assert(x/2 == -3 && x%2 == -1 && x>>1 == -4, "self-signed-div-shift")
	var u uint = 1
	zzvf.Assert(u<<63>>63 == 1 && u<<64 == 0, "self-shift")
	// --- strings
	zzvf.Assert(strings.Replace("a.b.c", ".", "/", -1) == "a/b/c", "self-replace")
	zzvf.Assert(strings.Replace("x{cid}y{cid}", "{cid}", "ID", -1) == "xIDyID", "self-replace-cid")
	parts := strings.Split("a/b//c", "/")
	zzvf.Assert(len(parts) == 4 && parts[2] == "" && strings.Join(parts, ".") == "a.b..c", "self-split-join")
	zzvf.Assert(strings.IndexByte("abc?d", '?') == 3 && strings.LastIndexByte("a.b.c", '.') == 3, "self-indexbyte")
	zzvf.Assert(strings.HasPrefix("/api/x", "/api/") && !strings.HasPrefix("/ap", "/api/"), "self-hasprefix")
	zzvf.Assert(strings.ContainsRune("a.b", '.') && !strings.ContainsRune("ab", '.'), "self-containsrune")
	zzvf.Assert(strings.TrimSpace(" \t x \n") == "x", "self-trimspace")
	zzvf.Assert(strings.ToLower("AbC-d") == "abc-d", "self-tolower")
	n, err := strconv.Atoi("123")
	zzvf.Assert(n == 123 && err == nil, "self-atoi")
	_, err = strconv.Atoi("12a")
	zzvf.Assert(err != nil, "self-atoi-error")
	zzvf.Assert(strconv.Itoa(-45) == "-45", "self-itoa")
	ss := []string{"b", "c", "a"}
	sort.Strings(ss)
	zzvf.Assert(ss[0] == "a" && ss[2] == "c", "self-sort")
	un, err := url.PathUnescape("a%2Fb%20c")
	zzvf.Assert(err == nil && un == "a/b c", "self-pathunescape")
	_, err = url.PathUnescape("a%zz")
	zzvf.Assert(err != nil, "self-pathunescape-error")
	zzvf.Assert(url.PathEscape("a b/c?d") == "a%20b%2Fc%3Fd", "self-pathescape")
	zzvf.Assert(textproto.CanonicalMIMEHeaderKey("content-TYPE") == "Content-Type", "self-canonical-key")
	zzvf.Assert(textproto.CanonicalMIMEHeaderKey("sec-websocket-protocol") == "Sec-Websocket-Protocol", "self-canonical-key-2")
	r, size := utf8.DecodeRuneInString("\xe2\x82\xacx")
	zzvf.Assert(r == 0x20ac && size == 3, "self-utf8-decode")
	r, size = utf8.DecodeRuneInString("\xff")
	zzvf.Assert(r == utf8.RuneError && size == 1, "self-utf8-invalid")
	cnt := 0
	for i, c := range "a\xffb€" {
		cnt += i
		if c == utf8.RuneError {
			cnt += 100
		}
	}
	zzvf.Assert(cnt == 0+1+100+2+3, "self-range-string")
	// --- maps, closures, defer/recover
	m := map[string]int{"a": 1}
	m["b"] = 2
	delete(m, "a")
	_, okA := m["a"]
	zzvf.Assert(len(m) == 1 && !okA && m["b"] == 2, "self-map")
	rec := func() (res string) {
		defer func() {
			if r := recover(); r != nil {
				res = "recovered"
			}
		}()
		var p *Meta
		_ = *p.Status
		return "no"
	}
	zzvf.Assert(rec() == "recovered", "self-recover-nil-deref")
	// --- JSON: values
	var v Value
	err = json.Unmarshal([]byte(` {"rid":"test.model"}`), &v)
	zzvf.Assert(err == nil && v.Type == ValueTypeReference && v.RID == "test.model", "self-json-value-ref")
	err = json.Unmarshal([]byte(`{"rid":"test.model","soft":true}`), &v)
	zzvf.Assert(err == nil && v.Type == ValueTypeSoftReference, "self-json-value-soft")
	v = Value{}
	err = json.Unmarshal([]byte(`{"data":{"a":[1,2]}}`), &v)
	zzvf.Assert(err == nil && v.Type == ValueTypeData && string(v.Inner) == `{"a":[1,2]}`, "self-json-value-data")
	v = Value{}
	err = json.Unmarshal([]byte(`{"data":12}`), &v)
	zzvf.Assert(err == nil && v.Type == ValueTypePrimitive && string(v.RawMessage) == "12", "self-json-value-data-primitive")
	v = Value{}
	err = json.Unmarshal([]byte(`{"action":"delete"}`), &v)
	zzvf.Assert(err == nil && v.Type == ValueTypeDelete, "self-json-value-delete")
	v = Value{}
	zzvf.Assert(json.Unmarshal([]byte(`{"foo":1}`), &v) != nil, "self-json-value-object-rejected")
	zzvf.Assert(json.Unmarshal([]byte(`[1]`), &v) != nil, "self-json-value-array-rejected")
	zzvf.Assert(json.Unmarshal([]byte(`{"rid":"a..b"}`), &v) != nil, "self-json-value-bad-rid")
	// --- JSON: responses and events
	res, err := DecodeGetResponse([]byte(`{"result":{"model":{"a":"x","b":{"rid":"t.r"},"n":null},"query":"q=1"}}`))
	zzvf.Assert(err == nil && len(res.Model) == 3 && res.Model["b"].RID == "t.r" && res.Query == "q=1" && res.Collection == nil, "self-json-get-model")
	zzvf.Assert(string(res.Model["a"].RawMessage) == `"x"` && res.Model["n"].Type == ValueTypePrimitive, "self-json-get-model-values")
	res, err = DecodeGetResponse([]byte(`{"result":{"collection":[1,"two",{"rid":"t.r","soft":true}]}}`))
	zzvf.Assert(err == nil && len(res.Collection) == 3 && res.Collection[2].Type == ValueTypeSoftReference, "self-json-get-collection")
	_, err = DecodeGetResponse([]byte(`{"error":{"code":"system.notFound","message":"Not found"}}`))
	zzvf.Assert(reserr.IsError(err, reserr.CodeNotFound), "self-json-get-error")
	_, err = DecodeGetResponse([]byte(`{"result":{"model":{"a":{"action":"delete"}}}}`))
	zzvf.Assert(err != nil, "self-json-get-improper-value")
	_, err = DecodeGetResponse([]byte(`{"result":`))
	zzvf.Assert(reserr.IsError(err, reserr.CodeInternalError), "self-json-get-broken")
	_, err = DecodeGetResponse([]byte(`{"result":{}}`))
	zzvf.Assert(err != nil, "self-json-get-empty-result")
	ae, err := DecodeAddEvent(json.RawMessage(`{"idx":2,"value":"v"}`))
	zzvf.Assert(err == nil && ae.Idx == 2 && string(ae.Value.RawMessage) == `"v"`, "self-json-add")
	_, err = DecodeAddEvent(json.RawMessage(`{"idx":"x","value":"v"}`))
	zzvf.Assert(err != nil, "self-json-add-type-error")
	_, err = DecodeAddEvent(json.RawMessage(`{"idx":1}`))
	zzvf.Assert(err != nil, "self-json-add-missing-value")
	re, err := DecodeRemoveEvent(EncodeRemoveEvent(&RemoveEvent{Idx: 7}))
	zzvf.Assert(err == nil && re.Idx == 7, "self-json-remove-roundtrip")
	zzvf.Assert(string(EncodeAddEvent(&AddEvent{Idx: 1, Value: Value{RawMessage: json.RawMessage(`"<a>"`), Type: ValueTypePrimitive}})) == `{"idx":1,"value":"\u003ca\u003e"}`, "self-json-add-encode")
	ce := EncodeChangeEvent(map[string]Value{"b": DeleteValue, "a": {RawMessage: json.RawMessage(`1`), Type: ValueTypePrimitive}})
	zzvf.Assert(string(ce) == `{"values":{"a":1,"b":{"action":"delete"}}}`, "self-json-change-encode")
	zzvf.Assert(!IsLegacyChangeEvent(ce), "self-legacy-detect-new")
	zzvf.Assert(IsLegacyChangeEvent(json.RawMessage(`{"a":1}`)) && IsLegacyChangeEvent(json.RawMessage(`{"values":1}`)) && !IsLegacyChangeEvent(json.RawMessage(`[`)), "self-legacy-detect")
	ar, meta, rerr := DecodeAccessResponse([]byte(`{"result":{"get":true,"call":"a,b"},"meta":{"status":303,"header":{"set-cookie":["a=1"],"X-y":["z"]}}}`))
	zzvf.Assert(rerr == nil && ar.Get && ar.Call == "a,b" && *meta.Status == 303 && len(meta.Header["Set-Cookie"]) == 1 && meta.Header["X-Y"][0] == "z", "self-json-access")
	_, _, rerr = DecodeAccessResponse([]byte(`{"result":null}`))
	zzvf.Assert(rerr != nil, "self-json-access-missing-result")
	raw, rid, _, err := DecodeCallResponse([]byte(`{"resource":{"rid":"test.model"}}`))
	zzvf.Assert(err == nil && rid == "test.model" && raw == nil, "self-json-call-resource")
	raw, rid, _, err = DecodeCallResponse([]byte(`{"result":{"foo":[1, 2]}}`))
	zzvf.Assert(err == nil && rid == "" && string(raw) == `{"foo":[1, 2]}`, "self-json-call-result")
	_, _, _, err = DecodeCallResponse([]byte(`{"resource":{"rid":"test..model"}}`))
	zzvf.Assert(err != nil, "self-json-call-bad-rid")
	lr, err := TryDecodeLegacyNewResult(json.RawMessage(`{"rid":"test.model"}`))
	zzvf.Assert(err == nil && lr == "test.model", "self-json-legacy-new")
	lr, err = TryDecodeLegacyNewResult(json.RawMessage(`{"rid":"test.model","x":1}`))
	zzvf.Assert(err == nil && lr == "", "self-json-legacy-new-two-keys")
	sr, err := DecodeSystemReset(json.RawMessage(`{"resources":["a.>","b"],"access":null}`))
	zzvf.Assert(err == nil && len(sr.Resources) == 2 && sr.Access == nil, "self-json-reset")
	te, err := DecodeConnTokenEvent([]byte(`{"token":{"user":"x"},"tid":"t1"}`))
	zzvf.Assert(err == nil && string(te.Token) == `{"user":"x"}` && te.TID == "t1", "self-json-token")
	te, err = DecodeConnTokenEvent([]byte(`{"token":null}`))
	zzvf.Assert(err == nil && string(te.Token) == "null", "self-json-token-null")
	qr, err := DecodeEventQueryResponse([]byte(`{"result":{"events":[{"event":"add","data":{"idx":0,"value":1}}]}}`))
	zzvf.Assert(err == nil && len(qr.Events) == 1 && qr.Events[0].Event == "add" && string(qr.Events[0].Data) == `{"idx":0,"value":1}`, "self-json-query-events")
	// --- request encoding
	req := CreateRequest(json.RawMessage(`{"p":1}`), vfReq{"cid1"}, "q=2", json.RawMessage(`{"t":1}`), false)
	zzvf.Assert(string(req) == `{"params":{"p":1},"token":{"t":1},"query":"q=2","cid":"cid1"}`, "self-json-create-request")
	req = CreateRequest(nil, vfReq{"c"}, "", nil, true)
	zzvf.Assert(string(req) == `{"cid":"c","isHttp":true}`, "self-json-create-request-min")
	zzvf.Assert(string(CreateGetRequest("")) == `{}` && string(CreateGetRequest(`a"b`)) == `{"query":"a\"b"}`, "self-json-create-get")
	out, err := json.Marshal(reserr.ErrNotFound)
	zzvf.Assert(err == nil && string(out) == `{"code":"system.notFound","message":"Not found"}`, "self-json-error")
	out, _ = json.Marshal(map[string]interface{}{"b": []int{1, 2}, "a": nil, "c": "é\n"})
	zzvf.Assert(string(out) == `{"a":null,"b":[1,2],"c":"é\n"}`, "self-json-generic")
	var g interface{}
	err = json.Unmarshal([]byte(`{"rid":"x","n":[1,true,null]}`), &g)
	gm, okm := g.(map[string]interface{})
	zzvf.Assert(err == nil && okm && gm["rid"].(string) == "x" && len(gm["n"].([]interface{})) == 3, "self-json-generic-decode")
	zzvf.Reach("self-end")
}

type vfReq struct{ cid string }

func (r vfReq) CID() string { return r.cid }
