//go:build verif

package codec

import (
	"testing"

	"github.com/resgateio/resgate/zzvf"
)

func TestVFReplay(t *testing.T) { zzvf.RunReplay() }
