//go:build verif

package codec

import (
	"net/http"

	"github.com/resgateio/resgate/zzvf"
)

func init() {
	zzvf.Register("VF_C14_K1_Validators", VF_C14_K1_Validators)
	zzvf.Register("VF_C17_K1_MetaStatus", VF_C17_K1_MetaStatus)
	zzvf.Register("VF_C17_K2_Headers", VF_C17_K2_Headers)
}

// ---- reference subject grammar

func vfTokenByteOK(c byte) bool {
	return c >= 33 && c <= 126 && c != '*' && c != '>' && c != '?' && c != '.'
}

// vfRefValidName: non-empty dot separated tokens of printable non-space
// ASCII without * > ?.
func vfRefValidName(s string) bool {
	if len(s) == 0 {
		return false
	}
	tokLen := 0
	for i := 0; i < len(s); i++ {
		c := s[i]
		if c == '.' {
			if tokLen == 0 {
				return false
			}
			tokLen = 0
			continue
		}
		if !vfTokenByteOK(c) {
			return false
		}
		tokLen++
	}
	return tokLen > 0
}

// vfRefValidRID: name [ "?" query ]; everything after the first ? is query
// and unconstrained.
func vfRefValidRID(s string, allowQuery bool) bool {
	for i := 0; i < len(s); i++ {
		if s[i] == '?' {
			return allowQuery && vfRefValidName(s[:i])
		}
	}
	return vfRefValidName(s)
}

func vfRefValidPart(s string) bool {
	if len(s) == 0 {
		return false
	}
	for i := 0; i < len(s); i++ {
		if !vfTokenByteOK(s[i]) {
			return false
		}
	}
	return true
}

// VF_C14_K1_Validators: IsValidRID / IsValidRIDPart against the subject
// grammar for every byte string of length n (including invalid UTF-8).
func VF_C14_K1_Validators() {
	n := zzvf.Param("n")
	s := zzvf.Str("s", n)
	zzvf.Reach("c14k1-start")
	which := zzvf.Choose("fn", 3)
	switch which {
	case 0:
		got := IsValidRID(s, true)
		zzvf.Assert(got == vfRefValidRID(s, true), "isvalidrid-query-allowed-matches-grammar")
	case 1:
		got := IsValidRID(s, false)
		zzvf.Assert(got == vfRefValidRID(s, false), "isvalidrid-no-query-matches-grammar")
	case 2:
		got := IsValidRIDPart(s)
		zzvf.Assert(got == vfRefValidPart(s), "isvalidridpart-matches-grammar")
	}
}

// VF_C17_K1_MetaStatus: a meta status is a direct response exactly within
// 300..599, for every 64-bit status; a nil meta / nil status never is.
func VF_C17_K1_MetaStatus() {
	st := zzvf.Int("status")
	zzvf.Reach("c17k1-start")
	var nilMeta *Meta
	zzvf.Assert(!nilMeta.IsDirectResponseStatus(), "nil-meta-is-not-direct")
	zzvf.Assert(nilMeta.IsValidStatus(), "nil-meta-is-valid")
	zzvf.Assert(!(&Meta{}).IsDirectResponseStatus(), "nil-status-is-not-direct")
	zzvf.Assert((&Meta{}).IsValidStatus(), "nil-status-is-valid")
	m := &Meta{Status: &st}
	in := zzvf.And(st >= 300, st <= 599)
	zzvf.Assert(zzvf.Iff(m.IsDirectResponseStatus(), in), "direct-iff-300-599")
	zzvf.Assert(zzvf.Iff(m.IsValidStatus(), in), "valid-iff-300-599")
}

var vfProtected = []string{"Content-Type", "Access-Control-Allow-Origin", "Access-Control-Allow-Credentials", "Sec-Websocket-Extensions", "Sec-Websocket-Protocol"}

// VF_C17_K2_Headers: Canonicalize + MergeHeader. A service-supplied header
// whose name is a protected name in any letter case never replaces the
// destination value; Set-Cookie (any case) accumulates; other keys replace.
func VF_C17_K2_Headers() {
	which := zzvf.Param("name") // index into protected names, or 5 = set-cookie, 6 = other
	var base string
	switch {
	case which < 5:
		base = vfProtected[which]
	case which == 5:
		base = "Set-Cookie"
	default:
		base = "X-Other"
	}
	// letter case: up to `flips` letters (positions chosen by the engine's
	// choice operator, every combination explored) deviate from the
	// canonical spelling; flips=99 stands for "all letters flipped"
	kb := []byte(base)
	var letters []int
	for i := 0; i < len(base); i++ {
		lower := base[i] | 0x20
		if lower >= 'a' && lower <= 'z' {
			letters = append(letters, i)
		}
	}
	nflips := zzvf.Param("flips")
	if nflips == 99 {
		for _, i := range letters {
			kb[i] ^= 0x20
		}
	} else {
		last := -1
		for f := 0; f < nflips; f++ {
			// strictly increasing positions; choice 0 = stop
			c := zzvf.Choose("flip-pos", len(letters)-last)
			if c == 0 {
				break
			}
			last += c
			kb[letters[last]] ^= 0x20
		}
	}
	key := string(kb)
	zzvf.Reach("c17k2-key")
	meta := &Meta{Header: http.Header{}}
	meta.Header[key] = []string{"svc1", "svc2"}
	two := key != base && zzvf.Choose("also-canonical-spelling", 2) == 1
	if two {
		// the same header also under its canonical spelling in one meta object
		meta.Header[base] = []string{"svcC"}
	}
	zzvf.MapOrder(zzvf.Choose("map-order", 2) == 1)
	meta.Canonicalize()
	dst := http.Header{}
	dst[base] = []string{"gw"}
	MergeHeader(dst, meta.GetHeader())
	got := dst[base]
	count := func(x string) int {
		n := 0
		for _, g := range got {
			if g == x {
				n++
			}
		}
		return n
	}
	svc := 2
	if two {
		svc = 3
		zzvf.Assert(count("svcC") == 1 || which < 5, "canonical-spelling-value-kept")
	}
	switch {
	case which < 5:
		zzvf.Assert(len(got) == 1 && got[0] == "gw", "protected-header-not-replaced")
		zzvf.Assert(len(dst) == 1, "no-alias-of-protected-header-added")
	case which == 5:
		zzvf.Assert(len(got) == 1+svc && got[0] == "gw" && count("svc1") == 1 && count("svc2") == 1, "set-cookie-accumulates")
	default:
		zzvf.Assert(len(got) == svc && count("svc1") == 1 && count("svc2") == 1 && count("gw") == 0, "other-header-replaced")
	}
}
