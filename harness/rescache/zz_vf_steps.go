//go:build verif

package rescache

import (
	"encoding/json"

	"github.com/resgateio/resgate/server/codec"
	"github.com/resgateio/resgate/server/reserr"
	"github.com/resgateio/resgate/zzvf"
)

func init() {
	zzvf.Register("VF_C01_S1_AddRemove", VF_C01_S1_AddRemove)
	zzvf.Register("VF_C01_S3_Change", VF_C01_S3_Change)
	zzvf.Register("VF_C12_K2_LCS", VF_C12_K2_LCS)
	zzvf.Register("VF_C12_K3_ModelDiff", VF_C12_K3_ModelDiff)
	zzvf.Register("VF_C12_S1_ResetResponse", VF_C12_S1_ResetResponse)
}

type vfRecSub struct {
	events []*ResourceEvent
	loaded int
}

func (s *vfRecSub) CID() string                                { return "cid" }
func (s *vfRecSub) Loaded(rs *ResourceSubscription, err error) { s.loaded++ }
func (s *vfRecSub) Event(ev *ResourceEvent)                    { s.events = append(s.events, ev) }
func (s *vfRecSub) ResourceName() string                       { return "test.res" }
func (s *vfRecSub) ResourceQuery() string                      { return "" }
func (s *vfRecSub) Reaccess(t *Throttle)                       {}

type vfNullLogger struct{}

func (vfNullLogger) Log(s string)   {}
func (vfNullLogger) Error(s string) {}
func (vfNullLogger) Debug(s string) {}
func (vfNullLogger) Trace(s string) {}
func (vfNullLogger) IsDebug() bool  { return false }
func (vfNullLogger) IsTrace() bool  { return false }

// vfStepRS builds a loaded ResourceSubscription with one recording subscriber.
func vfStepRS(state subscriptionState) (*ResourceSubscription, *vfRecSub) {
	c := &Cache{logger: vfNullLogger{}, depLogged: make(map[string]featureType)}
	e := &EventSubscription{ResourceName: "test.res", cache: c, count: 1}
	rs := newResourceSubscription(e, "")
	rs.state = state
	e.base = rs
	sub := &vfRecSub{}
	rs.subs[sub] = struct{}{}
	return rs, sub
}

// vfPrim makes a primitive value whose JSON text is one symbolic digit.
func vfPrim(name string) codec.Value {
	b := zzvf.Byte(name)
	zzvf.Assume(zzvf.And(b >= '0', b <= '9'))
	return codec.Value{RawMessage: json.RawMessage([]byte{b}), Type: codec.ValueTypePrimitive}
}

func vfValEq(a, b codec.Value) bool {
	return zzvf.And(a.Type == b.Type, zzvf.BytesEq(a.RawMessage, b.RawMessage))
}

// VF_C01_S1_AddRemove: one add or remove event with a full-width symbolic
// index on a collection of n symbolic elements and a symbolic version.
func VF_C01_S1_AddRemove() {
	n := zzvf.Param("n")
	rs, sub := vfStepRS(stateCollection)
	old := make([]codec.Value, n)
	for i := range old {
		old[i] = vfPrim("e")
	}
	keep := append([]codec.Value(nil), old...)
	rs.collection = &Collection{Values: old}
	ver := zzvf.Uint("version")
	rs.version = ver
	idx := zzvf.Int("idx")
	isAdd := zzvf.Choose("kind", 2) == 0
	var payload json.RawMessage
	nv := vfPrim("new")
	if isAdd {
		payload = codec.EncodeAddEvent(&codec.AddEvent{Idx: idx, Value: nv})
	} else {
		payload = codec.EncodeRemoveEvent(&codec.RemoveEvent{Idx: idx})
	}
	ev := &ResourceEvent{Event: "remove", Payload: payload}
	if isAdd {
		ev.Event = "add"
	}
	zzvf.Reach("c01s1-before")
	rs.e.mu.Lock()
	rs.handleEvent(ev)
	rs.e.mu.Unlock()
	// the old slice is never modified (it may have been handed to subscribers)
	for i := range old {
		zzvf.Assert(vfValEq(old[i], keep[i]), "old-collection-untouched")
	}
	now := rs.collection.Values
	valid := idx >= 0 && ((isAdd && idx <= n) || (!isAdd && idx < n))
	if !valid {
		zzvf.Reach("c01s1-rejected")
		zzvf.Assert(len(sub.events) == 0, "rejected-event-not-forwarded")
		zzvf.Assert(rs.version == ver && len(now) == n, "rejected-event-changes-nothing")
		for i := range now {
			zzvf.Assert(vfValEq(now[i], keep[i]), "rejected-event-keeps-values")
		}
		return
	}
	zzvf.Reach("c01s1-applied")
	zzvf.Assert(len(sub.events) == 1 && sub.events[0] == ev, "applied-event-forwarded-once")
	zzvf.Assert(ev.Version == ver && ev.Update && ev.Idx == idx, "event-stamped-with-pre-increment-version")
	zzvf.Assert(rs.version == ver+1, "version-bumped-by-one")
	if isAdd {
		zzvf.Assert(len(now) == n+1, "add-grows-by-one")
		for i := 0; i < n+1; i++ {
			var want codec.Value
			switch {
			case i < idx:
				want = keep[i]
			case i == idx:
				want = nv
			default:
				want = keep[i-1]
			}
			zzvf.Assert(vfValEq(now[i], want), "add-inserts-at-index")
		}
		zzvf.Assert(vfValEq(ev.Value, nv), "add-event-carries-value")
	} else {
		zzvf.Assert(len(now) == n-1, "remove-shrinks-by-one")
		for i := 0; i < n-1; i++ {
			want := keep[i]
			if i >= idx {
				want = keep[i+1]
			}
			zzvf.Assert(vfValEq(now[i], want), "remove-deletes-at-index")
		}
		zzvf.Assert(vfValEq(ev.Value, keep[idx]), "remove-event-carries-removed-value")
	}
}

var vfKeys = []string{"a", "b", "c"}

// vfSymModel builds a model over the key universe with symbolic presence
// (decided by forking) and symbolic values.
func vfSymModel(name string, nkeys int, allowDelete bool) map[string]codec.Value {
	m := map[string]codec.Value{}
	for i := 0; i < nkeys; i++ {
		switch zzvf.Choose(name+"-has", 2+btoi(allowDelete)) {
		case 1:
			m[vfKeys[i]] = vfPrim(name)
		case 2:
			m[vfKeys[i]] = codec.DeleteValue
		}
	}
	return m
}

func btoi(b bool) int {
	if b {
		return 1
	}
	return 0
}

// VF_C01_S3_Change: one change event (values and delete actions over a key
// universe, symbolic values) on a model with symbolic content.
func VF_C01_S3_Change() {
	nk := zzvf.Param("keys")
	rs, sub := vfStepRS(stateModel)
	old := vfSymModel("old", nk, false)
	keep := map[string]codec.Value{}
	for k, v := range old {
		keep[k] = v
	}
	rs.model = &Model{Values: old}
	ver := zzvf.Uint("version")
	rs.version = ver
	ch := vfSymModel("chg", nk, true)
	chKeep := map[string]codec.Value{}
	for k, v := range ch {
		chKeep[k] = v
	}
	ev := &ResourceEvent{Event: "change", Payload: codec.EncodeChangeEvent(ch)}
	zzvf.Reach("c01s3-before")
	rs.e.mu.Lock()
	rs.handleEvent(ev)
	rs.e.mu.Unlock()
	// expected new model and effective change set
	effective := 0
	for i := 0; i < nk; i++ {
		k := vfKeys[i]
		ov, had := keep[k]
		cv, inCh := chKeep[k]
		nv, has := rs.model.Values[k]
		switch {
		case !inCh:
			zzvf.Assert(has == had, "untouched-key-presence-kept")
			if had {
				zzvf.Assert(vfValEq(nv, ov), "untouched-key-value-kept")
			}
		case cv.Type == codec.ValueTypeDelete:
			zzvf.Assert(!has, "delete-action-removes-key")
			if had {
				effective++
			}
		default:
			zzvf.Assert(has && vfValEq(nv, cv), "changed-key-has-new-value")
			if !had || !ov.Equal(cv) {
				effective++
			}
		}
		ov2, had2 := old[k]
		zzvf.Assert(had2 == had && (!had || vfValEq(ov2, ov)), "old-model-untouched")
	}
	if effective == 0 {
		zzvf.Reach("c01s3-noop")
		zzvf.Assert(len(sub.events) == 0 && rs.version == ver, "no-op-change-neither-forwarded-nor-versioned")
		return
	}
	zzvf.Reach("c01s3-applied")
	zzvf.Assert(len(sub.events) == 1 && ev.Update && ev.Version == ver && rs.version == ver+1, "change-forwarded-once-stamped-and-versioned")
	zzvf.Assert(len(ev.Changed) == effective, "changed-set-is-exactly-the-effective-changes")
}

// vfApplied reports whether the real handlers transformed rs.collection
// from a into b.
func vfSameSeq(a, b []codec.Value) bool {
	if len(a) != len(b) {
		return false
	}
	ok := true
	for i := range a {
		ok = zzvf.And(ok, vfValEq(a[i], b[i]))
	}
	return ok
}

// VF_C12_K2_LCS: for every old and new collection (symbolic elements, so
// repeated values are covered) the events derived by the diff, applied in
// order through the real add/remove handlers, yield exactly the new
// collection with every index in range; equal collections yield no event.
func VF_C12_K2_LCS() {
	la := zzvf.Param("la")
	lb := zzvf.Param("lb")
	rs, sub := vfStepRS(stateCollection)
	a := make([]codec.Value, la)
	for i := range a {
		a[i] = vfPrim("a")
	}
	b := make([]codec.Value, lb)
	for i := range b {
		b[i] = vfPrim("b")
	}
	rs.collection = &Collection{Values: a}
	ver := rs.version
	zzvf.Reach("c12k2-before")
	rs.e.mu.Lock()
	rs.processResetCollection(b)
	rs.e.mu.Unlock()
	zzvf.Assert(vfSameSeq(rs.collection.Values, b), "diff-events-yield-the-new-collection")
	// every derived event was applicable (forwarded, hence index in range)
	zzvf.Assert(rs.version == ver+uint(len(sub.events)), "every-derived-event-was-applied")
	if la == lb {
		same := true
		for i := range a {
			same = same && a[i].Equal(b[i])
		}
		if same {
			zzvf.Reach("c12k2-equal")
			zzvf.Assert(len(sub.events) == 0, "equal-collections-yield-no-event")
		}
	}
	zzvf.Assert(len(sub.events) <= la+lb, "no-more-events-than-elements")
}

// VF_C12_K3_ModelDiff: old and new model over the key universe: exactly one
// change event (delete actions for vanished keys) whose application yields
// the new model, none when equal.
func VF_C12_K3_ModelDiff() {
	nk := zzvf.Param("keys")
	rs, sub := vfStepRS(stateModel)
	old := vfSymModel("old", nk, false)
	nw := vfSymModel("new", nk, false)
	want := map[string]codec.Value{}
	for k, v := range nw {
		want[k] = v
	}
	rs.model = &Model{Values: old}
	equal := len(old) == len(nw)
	for k, v := range old {
		if w, ok := nw[k]; !ok || !v.Equal(w) {
			equal = false
		}
	}
	zzvf.Reach("c12k3-before")
	rs.e.mu.Lock()
	rs.processResetModel(nw)
	rs.e.mu.Unlock()
	got := rs.model.Values
	zzvf.Assert(len(got) == len(want), "model-diff-yields-new-key-set")
	for k, v := range want {
		g, ok := got[k]
		zzvf.Assert(ok && vfValEq(g, v), "model-diff-yields-new-values")
	}
	if equal {
		zzvf.Reach("c12k3-equal")
		zzvf.Assert(len(sub.events) == 0, "equal-models-yield-no-event")
	} else {
		zzvf.Assert(len(sub.events) == 1 && sub.events[0].Event == "change", "one-change-event")
	}
}

// VF_C12_S1_ResetResponse: the answer to a reset re-fetch: type mismatch and
// other errors change nothing, system.notFound yields a delete event,
// resetting is cleared by the caller; events meanwhile are dropped.
func VF_C12_S1_ResetResponse() {
	isModel := zzvf.Choose("type", 2) == 0
	st := stateCollection
	if isModel {
		st = stateModel
	}
	rs, sub := vfStepRS(st)
	rs.model = &Model{Values: map[string]codec.Value{"a": {RawMessage: json.RawMessage(`1`), Type: codec.ValueTypePrimitive}}}
	rs.collection = &Collection{Values: []codec.Value{{RawMessage: json.RawMessage(`1`), Type: codec.ValueTypePrimitive}}}
	rs.e.mu.Lock()
	defer rs.e.mu.Unlock()
	zzvf.Reach("c12s1-before")
	// while resetting, state events are dropped
	rs.resetting = true
	rs.handleEvent(&ResourceEvent{Event: "change", Payload: json.RawMessage(`{"values":{"a":2}}`)})
	rs.handleEvent(&ResourceEvent{Event: "add", Payload: json.RawMessage(`{"idx":0,"value":2}`)})
	rs.handleEvent(&ResourceEvent{Event: "remove", Payload: json.RawMessage(`{"idx":0}`)})
	zzvf.Assert(len(sub.events) == 0 && rs.version == 0, "state-events-dropped-while-resetting")
	rs.resetting = false
	switch zzvf.Choose("answer", 6) {
	case 5: // empty content is still content of the right type
		if isModel {
			rs.processResetGetResponse([]byte(`{"result":{"model":{}}}`), nil)
			zzvf.Assert(len(sub.events) == 1 && sub.events[0].Event == "change" && len(rs.model.Values) == 0, "empty-model-refetch-applied")
		} else {
			rs.processResetGetResponse([]byte(`{"result":{"collection":[]}}`), nil)
			zzvf.Assert(len(sub.events) == 1 && sub.events[0].Event == "remove" && len(rs.collection.Values) == 0, "empty-collection-refetch-applied")
		}
	case 0: // wrong type
		if isModel {
			rs.processResetGetResponse([]byte(`{"result":{"collection":[1,2]}}`), nil)
		} else {
			rs.processResetGetResponse([]byte(`{"result":{"model":{"a":2}}}`), nil)
		}
		zzvf.Assert(len(sub.events) == 0 && rs.version == 0, "type-mismatch-changes-nothing")
	case 1: // not found
		rs.processResetGetResponse([]byte(`{"error":{"code":"system.notFound","message":"Not found"}}`), nil)
		zzvf.Assert(len(sub.events) == 1 && sub.events[0].Event == "delete", "notFound-yields-delete-event")
		zzvf.Assert(rs.e.base == nil, "deleted-resource-unregistered")
	case 2: // other error
		rs.processResetGetResponse([]byte(`{"error":{"code":"system.internalError","message":"x"}}`), nil)
		zzvf.Assert(len(sub.events) == 0 && rs.version == 0, "other-error-changes-nothing")
	case 3: // transport error
		rs.processResetGetResponse(nil, reserr.ErrTimeout)
		zzvf.Assert(len(sub.events) == 0 && rs.version == 0, "timeout-changes-nothing")
	case 4: // new content
		if isModel {
			rs.processResetGetResponse([]byte(`{"result":{"model":{"a":2,"b":3}}}`), nil)
			zzvf.Assert(len(sub.events) == 1 && sub.events[0].Event == "change" && len(rs.model.Values) == 2, "model-refetch-applied")
		} else {
			rs.processResetGetResponse([]byte(`{"result":{"collection":[2,1]}}`), nil)
			zzvf.Assert(len(rs.collection.Values) == 2 && string(rs.collection.Values[0].RawMessage) == "2", "collection-refetch-applied")
		}
	}
}
