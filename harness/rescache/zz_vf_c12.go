//go:build verif

package rescache

import (
	"github.com/resgateio/resgate/zzvf"
)

func init() {
	zzvf.Register("VF_C12_K1_Pattern", VF_C12_K1_Pattern)
}

// ---- reference: NATS-style wildcard patterns over dot separated tokens

func vfTokens(s string) []string {
	var out []string
	start := 0
	for i := 0; i <= len(s); i++ {
		if i == len(s) || s[i] == '.' {
			out = append(out, s[start:i])
			start = i + 1
		}
	}
	return out
}

// vfValidName: non-empty tokens of printable non-space ASCII without * > ?
func vfValidName(s string) bool {
	if len(s) == 0 {
		return false
	}
	for _, t := range vfTokens(s) {
		if len(t) == 0 {
			return false
		}
		for i := 0; i < len(t); i++ {
			c := t[i]
			if c < 33 || c > 126 || c == '*' || c == '>' || c == '?' {
				return false
			}
		}
	}
	return true
}

// vfValidPattern: like a name, but a token may be exactly "*", and the last
// token may be exactly ">".
func vfValidPattern(p string) bool {
	if len(p) == 0 {
		return false
	}
	toks := vfTokens(p)
	for k, t := range toks {
		if len(t) == 0 {
			return false
		}
		if t == "*" {
			continue
		}
		if t == ">" {
			if k != len(toks)-1 {
				return false
			}
			continue
		}
		for i := 0; i < len(t); i++ {
			c := t[i]
			if c < 33 || c > 126 || c == '*' || c == '>' || c == '?' {
				return false
			}
		}
	}
	return true
}

// vfRefMatch: * is exactly one token, > is one or more trailing tokens.
func vfRefMatch(p, s string) bool {
	pt := vfTokens(p)
	st := vfTokens(s)
	for k, t := range pt {
		if t == ">" {
			return len(st) > k
		}
		if k >= len(st) {
			return false
		}
		if t != "*" && t != st[k] {
			return false
		}
	}
	return len(pt) == len(st)
}

// VF_C12_K1_Pattern: ParseResourcePattern / IsValid / Match against the
// token-wise reference for every pattern of pn bytes and every valid
// resource name of sn bytes.
func VF_C12_K1_Pattern() {
	pn := zzvf.Param("pn")
	sn := zzvf.Param("sn")
	p := zzvf.Str("p", pn)
	s := zzvf.Str("s", sn)
	// cache entries only ever carry valid resource names: assumed as one
	// solver-level formula (no forking), checked against vfValidName below
	ok := true
	for i := 0; i < sn; i++ {
		c := s[i]
		dot := c == '.'
		ok = zzvf.And(ok, zzvf.And(c >= 33, c <= 126))
		ok = zzvf.And(ok, zzvf.Not(zzvf.Or(c == '*', zzvf.Or(c == '>', c == '?'))))
		if i == 0 || i == sn-1 {
			ok = zzvf.And(ok, zzvf.Not(dot))
		} else {
			ok = zzvf.And(ok, zzvf.Not(zzvf.And(dot, s[i-1] == '.')))
		}
	}
	zzvf.Assume(ok)
	rp := ParseResourcePattern(p)
	zzvf.Reach("c12k1-parsed")
	got := rp.Match(s)
	valid := vfValidPattern(p)
	zzvf.Assert(rp.IsValid() == valid, "pattern-validity-matches-grammar")
	zzvf.Assert(vfValidName(s), "harness-name-assumption-is-validity")
	zzvf.Reach("c12k1-valid-name")
	if !valid {
		zzvf.Assert(!got, "invalid-pattern-matches-nothing")
		return
	}
	zzvf.Assert(got == vfRefMatch(p, s), "match-equals-token-reference")
}
