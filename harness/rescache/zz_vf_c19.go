//go:build verif

package rescache

import (
	"github.com/resgateio/resgate/zzvf"
)

func init() {
	zzvf.Register("VF_C19_S1_Throttle", VF_C19_S1_Throttle)
}

// VF_C19_S1_Throttle: one Add or Done from an arbitrary Throttle state that
// satisfies INV: 0<=running<=limit and (queue non-empty => running==limit).
// limit and running are full-width symbolic integers; queue length is q.
func VF_C19_S1_Throttle() {
	q := zzvf.Param("q")
	limit := zzvf.Int("limit")
	running := zzvf.Int("running")
	zzvf.Assume(limit >= 1)
	zzvf.Assume(running >= 0)
	zzvf.Assume(running <= limit)
	started := make([]int, 0, 8)
	t := &Throttle{limit: limit, running: running}
	for i := 0; i < q; i++ {
		i := i
		t.queue = append(t.queue, func() { started = append(started, i) })
	}
	if q > 0 {
		zzvf.Assume(running == limit)
	}
	zzvf.Reach("c19s1-state")
	op := zzvf.Choose("op", 2)
	if op == 0 {
		// Add
		t.Add(func() { started = append(started, 100) })
		zzvf.Settle()
		atLimit := running >= limit
		if atLimit {
			zzvf.Assert(len(started) == 0, "add-at-limit-starts-nothing")
			zzvf.Assert(len(t.queue) == q+1, "add-at-limit-queues")
			zzvf.Assert(t.running == running, "add-at-limit-keeps-running")
		} else {
			zzvf.Assert(len(started) == 1 && started[0] == 100, "add-below-limit-starts-callback")
			zzvf.Assert(len(t.queue) == q, "add-below-limit-does-not-queue")
			zzvf.Assert(t.running == running+1, "add-below-limit-takes-slot")
		}
	} else {
		// Done is only called for a started callback: running >= 1
		zzvf.Assume(running >= 1)
		t.Done()
		zzvf.Settle()
		if q == 0 {
			zzvf.Assert(len(started) == 0, "done-without-waiter-starts-nothing")
			zzvf.Assert(t.running == running-1, "done-without-waiter-frees-slot")
		} else {
			zzvf.Assert(len(started) == 1 && started[0] == 0, "done-starts-oldest-waiter")
			zzvf.Assert(len(t.queue) == q-1, "done-dequeues-one")
			zzvf.Assert(t.running == running, "done-hands-slot-over")
		}
	}
	// INV preserved
	zzvf.Assert(t.running >= 0 && t.running <= limit, "inv-running-within-limit")
	if len(t.queue) > 0 {
		zzvf.Assert(t.running == limit, "inv-queue-implies-full")
	}
	zzvf.Assert(t.mu == (vfZeroMutex), "mutex-released")
}
