//go:build verif

package rescache

import (
	"time"

	"github.com/resgateio/resgate/server/mq"
	"github.com/resgateio/resgate/zzvf"
)

func init() {
	zzvf.Register("VF_C01_L3_QueueWindow", VF_C01_L3_QueueWindow)
}

// vfQWSub follows the subscriber protocol of server.Subscription: after
// Loaded it takes a snapshot (value, version) at some later moment; an event
// is applied iff its version equals the snapshot's, bumping it on an update.
type vfQWSub struct {
	name     string
	rs       *ResourceSubscription
	loaded   int
	failed   bool
	snapped  bool
	val      string
	version  uint
	buffered []*ResourceEvent
	applied  int
	unsub    bool
	hook     func(where string)
}

func (s *vfQWSub) CID() string           { return "cid" + s.name }
func (s *vfQWSub) ResourceName() string  { return "test.model" }
func (s *vfQWSub) ResourceQuery() string { return "" }
func (s *vfQWSub) Reaccess(t *Throttle)  {}
func (s *vfQWSub) Loaded(rs *ResourceSubscription, err error) {
	s.loaded++
	s.rs = rs
	s.failed = err != nil
	if s.hook != nil {
		s.hook("loaded " + s.name)
	}
}
func (s *vfQWSub) Event(ev *ResourceEvent) {
	if s.rs == nil {
		// prior to Loaded: discarded, the snapshot will contain it
		return
	}
	if !s.snapped {
		s.buffered = append(s.buffered, ev)
	} else {
		s.apply(ev)
	}
	if s.hook != nil {
		s.hook("event " + s.name)
	}
}
func (s *vfQWSub) apply(ev *ResourceEvent) {
	if ev.Version != s.version {
		return
	}
	if ev.Update {
		s.version++
	}
	if ev.Event == "change" {
		if v, ok := ev.Changed["v"]; ok {
			s.val = string(v.RawMessage)
			s.applied++
		}
	}
}

// snapshot reads the cached value like Subscription.setResource does.
func (s *vfQWSub) snapshot() {
	if s.snapped || s.rs == nil {
		return
	}
	m, ver := s.rs.GetModel()
	s.snapped = true
	s.version = ver
	if m != nil {
		s.val = string(m.Values["v"].RawMessage)
	}
	for _, ev := range s.buffered {
		s.apply(ev)
	}
	s.buffered = nil
}

// VF_C01_L3_QueueWindow: the cache alone with subscribers that follow the
// snapshot/version protocol. Subscriptions, the get answer, change events,
// an unsubscribe and the subscribers' snapshots happen in every order,
// *including inside the windows in which the worker has released the entry's
// mutex to call Subscriber.Loaded / Subscriber.Event*. Every callback handed
// to the entry's queue meanwhile is processed, in order; at quiescence every
// live subscriber's view equals the service state, the queue is empty and the
// use count equals the number of live subscribers.
func VF_C01_L3_QueueWindow() {
	nsubs := zzvf.Param("subs")
	nev := zzvf.Param("events")
	budget := zzvf.ParamOr("inject", 2)
	m := &vfLWMQ{subs: map[string]mq.Response{}}
	c := NewCache(m, 0, 0, time.Hour, vfNullLogger{}, nil)
	if err := c.Start(); err != nil {
		zzvf.Assert(false, "harness-cache-start")
	}
	subs := make([]*vfQWSub, nsubs)
	for i := range subs {
		subs[i] = &vfQWSub{name: string(rune('A' + i))}
	}
	svc := 1 // service value of "v"
	subscribed := 0
	sentEv := 0
	unsubDone := false
	withUnsub := zzvf.ParamOr("unsub", 1) == 1
	var e *EventSubscription
	// enabled external actions (each a goroutine other than the worker)
	type act struct {
		label string
		run   func()
	}
	actions := func() []act {
		var out []act
		if subscribed < nsubs {
			s := subs[subscribed]
			out = append(out, act{"subscribe " + s.name, func() { subscribed++; c.Subscribe(s, nil) }})
		}
		for _, r := range m.pending() {
			r := r
			out = append(out, act{"answer get", func() {
				r.done = true
				r.cb("", []byte(`{"result":{"model":{"v":`+string(rune('0'+svc))+`}}}`), nil)
			}})
			break
		}
		if sentEv < nev && subscribed > 0 {
			out = append(out, act{"event", func() {
				sentEv++
				svc++
				if cb := m.subs["event.test.model"]; cb != nil {
					cb("event.test.model.change", []byte(`{"values":{"v":`+string(rune('0'+svc))+`}}`), nil)
				}
			}})
		}
		for _, s := range subs {
			s := s
			if s.rs != nil && !s.snapped && !s.failed {
				out = append(out, act{"snapshot " + s.name, s.snapshot})
			}
		}
		if withUnsub && !unsubDone && subs[0].rs != nil && !subs[0].failed {
			out = append(out, act{"unsubscribe A", func() { unsubDone = true; subs[0].unsub = true; subs[0].rs.Unsubscribe(subs[0]) }})
		}
		return out
	}
	injected := 0
	window := func(where string) {
		if e == nil {
			e = c.eventSubs["test.model"]
		}
		if e == nil || injected >= budget || !e.mu.TryLock() {
			return
		}
		e.mu.Unlock()
		zzvf.Reach("qw-window")
		as := actions()
		k := zzvf.Choose("in-window", len(as)+1)
		if k == 0 {
			return
		}
		injected++
		zzvf.Tag("action-inside-callback-window")
		zzvf.Note("inside " + where + ": " + as[k-1].label)
		as[k-1].run()
	}
	for _, s := range subs {
		s.hook = window
	}
	zzvf.Reach("qw-start")
	for step := 0; step < 40; step++ {
		as := actions()
		if VFCachePending(c) > 0 {
			as = append(as, act{"worker", func() { VFCacheStep(c) }})
		}
		if len(as) == 0 {
			break
		}
		a := as[zzvf.Choose("action", len(as))]
		zzvf.Note(a.label)
		a.run()
	}
	for _, s := range subs {
		s.hook = nil
	}
	for k := 0; k < 50 && VFCacheStep(c); k++ {
	}
	zzvf.Reach("qw-quiescent")
	e = c.eventSubs["test.model"]
	if e == nil {
		zzvf.Assert(false, "entry-exists")
		return
	}
	e.mu.Lock()
	queued, locked, count := len(e.queue), e.locks != nil, e.count
	e.mu.Unlock()
	zzvf.Assert(queued == 0 && !locked && VFCachePending(c) == 0, "every-queued-callback-processed")
	live := 0
	for _, s := range subs {
		zzvf.Assert(s.loaded == 1, "every-subscriber-loaded-exactly-once")
		if s.failed || s.unsub {
			continue
		}
		live++
		s.snapshot()
		zzvf.Reach("qw-view-checked")
		if s.val != string(rune('0'+svc)) {
			zzvf.Note("subscriber " + s.name + " sees v=" + s.val + ", service has v=" + string(rune('0'+svc)))
		}
		zzvf.Assert(s.val == string(rune('0'+svc)), "subscriber-view-equals-service-state")
	}
	zzvf.Assert(count == int64(live), "use-count-equals-live-subscribers")
	mod, _ := e.base.GetModel()
	zzvf.Assert(mod != nil && string(mod.Values["v"].RawMessage) == string(rune('0'+svc)), "cached-value-equals-service-state")
}
