//go:build verif

package rescache

import (
	"encoding/json"
	"time"

	"github.com/resgateio/resgate/server/mq"
	"github.com/resgateio/resgate/zzvf"
)

func init() {
	zzvf.Register("VF_C13_L3_LockWindow", VF_C13_L3_LockWindow)
}

type vfLWReq struct {
	subject string
	payload []byte
	cb      mq.Response
	done    bool
}

type vfLWUnsub struct{}

func (vfLWUnsub) Unsubscribe() error { return nil }

// vfLWMQ is a minimal mq.Client: requests are recorded and completed by the
// harness, later and exactly once.
type vfLWMQ struct {
	reqs []*vfLWReq
	subs map[string]mq.Response
}

func (m *vfLWMQ) Connect() error                  { return nil }
func (m *vfLWMQ) Close()                          {}
func (m *vfLWMQ) IsClosed() bool                  { return false }
func (m *vfLWMQ) SetClosedHandler(cb func(error)) {}
func (m *vfLWMQ) SendRequest(subj string, payload []byte, cb mq.Response) {
	m.reqs = append(m.reqs, &vfLWReq{subject: subj, payload: payload, cb: cb})
}
func (m *vfLWMQ) Subscribe(ns string, cb mq.Response) (mq.Unsubscriber, error) {
	m.subs[ns] = cb
	return vfLWUnsub{}, nil
}
func (m *vfLWMQ) pending() []*vfLWReq {
	var out []*vfLWReq
	for _, r := range m.reqs {
		if !r.done {
			out = append(out, r)
		}
	}
	return out
}

type vfLWSub struct {
	query  string
	rs     *ResourceSubscription
	loaded int
	events []*ResourceEvent
	hook   func()
}

func (s *vfLWSub) CID() string           { return "cid" }
func (s *vfLWSub) ResourceName() string  { return "test.model" }
func (s *vfLWSub) ResourceQuery() string { return s.query }
func (s *vfLWSub) Reaccess(t *Throttle)  {}
func (s *vfLWSub) Loaded(rs *ResourceSubscription, err error) {
	s.loaded++
	s.rs = rs
}
func (s *vfLWSub) Event(ev *ResourceEvent) {
	s.events = append(s.events, ev)
	if s.hook != nil {
		s.hook()
	}
}

func vfLWQueryOf(payload []byte) string {
	var p struct {
		Query string `json:"query"`
	}
	json.Unmarshal(payload, &p)
	return p.Query
}

// VF_C13_L3_LockWindow: the cache alone (real Cache, EventSubscription,
// ResourceSubscription; recording subscribers), n query resources of one
// resource, a query event, and the answers to its query requests arriving in
// every order *including while an earlier answer's events are being handed
// to the subscribers* (the worker has released the entry's mutex there, so
// the messaging client's goroutine can get in). Every answer is applied to
// its own query resource exactly once; an ordinary event arriving meanwhile
// is delivered after the lock; afterwards processing resumes.
func VF_C13_L3_LockWindow() {
	n := zzvf.Param("queries")
	m := &vfLWMQ{subs: map[string]mq.Response{}}
	c := NewCache(m, 0, 0, time.Hour, vfNullLogger{}, nil)
	if err := c.Start(); err != nil {
		zzvf.Assert(false, "harness-cache-start")
	}
	idle := func() {
		for k := 0; k < 50 && VFCacheStep(c); k++ {
		}
	}
	names := []string{"q=a", "q=b", "q=c"}[:n]
	subs := make([]*vfLWSub, n)
	val := make([]int, n) // expected value of "v" per query resource
	for i, q := range names {
		subs[i] = &vfLWSub{query: q}
		c.Subscribe(subs[i], nil)
		idle()
		p := m.pending()
		if len(p) != 1 || p[0].subject != "get.test.model" || vfLWQueryOf(p[0].payload) != q {
			zzvf.Assert(false, "one-get-per-query-resource")
			return
		}
		p[0].done = true
		qq, _ := json.Marshal(q)
		p[0].cb("", []byte(`{"result":{"model":{"v":1},"query":`+string(qq)+`}}`), nil)
		idle()
		zzvf.Assert(subs[i].loaded == 1 && subs[i].rs != nil, "query-resource-loaded")
		val[i] = 1
	}
	e := c.eventSubs["test.model"]
	zzvf.Reach("lw-loaded")
	// prequeue: a further subscriber of the first query subscribes right
	// before the query event, so that the event is not the first entry the
	// worker handles in that pass
	var extra *vfLWSub
	if zzvf.ParamOr("prequeue", 0) == 1 {
		extra = &vfLWSub{query: names[0]}
		c.Subscribe(extra, nil)
	}
	m.subs["event.test.model"]("event.test.model.query", []byte(`{"subject":"_Q1_"}`), nil)
	idle()
	if extra != nil {
		zzvf.Assert(extra.loaded == 1 && extra.rs == subs[0].rs, "late-subscriber-served-from-the-cached-query-resource")
	}
	zzvf.Assert(len(m.pending()) == n, "one-query-request-per-query-resource")
	customs := zzvf.ParamOr("customs", 1) // query events arriving during the lock
	sentCustom := 0
	applied := make([]int, n)    // answers applied per query
	wantEvents := make([]int, n) // change events expected per subscriber
	answer := func() {
		p := m.pending()
		if len(p) == 0 || p[0].subject != "_Q1_" {
			return
		}
		for _, r := range p {
			zzvf.Assert(r.subject == "_Q1_", "no-new-query-request-while-locked")
		}
		r := p[zzvf.Choose("which-answer", len(p))]
		r.done = true
		i := 0
		for k, q := range names {
			if vfLWQueryOf(r.payload) == q {
				i = k
			}
		}
		applied[i]++
		switch zzvf.Choose("outcome", 4) {
		case 0:
			nv := 10 + i
			zzvf.Note("answer " + names[i] + ": change event")
			val[i] = nv
			wantEvents[i]++
			r.cb("", []byte(`{"result":{"events":[{"event":"change","data":{"values":{"v":`+string(rune('0'+nv/10))+string(rune('0'+nv%10))+`}}}]}}`), nil)
		case 1:
			zzvf.Note("answer " + names[i] + ": no events")
			r.cb("", []byte(`{"result":{"events":[]}}`), nil)
		case 2:
			zzvf.Note("answer " + names[i] + ": model response")
			val[i] = 5
			wantEvents[i]++
			r.cb("", []byte(`{"result":{"model":{"v":5}}}`), nil)
		default:
			zzvf.Note("answer " + names[i] + ": timeout")
			r.cb("", nil, mq.ErrRequestTimeout)
		}
	}
	// inside a subscriber callback the entry's mutex is free: the messaging
	// client may deliver another answer or an ordinary event right there
	window := func() {
		if !e.mu.TryLock() {
			return
		}
		e.mu.Unlock()
		zzvf.Reach("lw-window")
		switch zzvf.Choose("in-window", 3) {
		case 1:
			if p := m.pending(); len(p) > 0 && p[0].subject == "_Q1_" {
				zzvf.Tag("answer-inside-delivery-window")
				answer()
			}
		case 2:
			if sentCustom < customs {
				sentCustom++
				m.subs["event.test.model"]("event.test.model.query", []byte(`{"subject":"_Q2_"}`), nil)
			}
		}
	}
	for _, s := range subs {
		s.hook = window
	}
	for step := 0; step < 30; step++ {
		np := 0
		for _, r := range m.pending() {
			if r.subject == "_Q1_" {
				np++
			}
		}
		pendingWork := VFCachePending(c) > 0
		var acts []int
		if np > 0 {
			acts = append(acts, 0)
		}
		if pendingWork {
			acts = append(acts, 1)
		}
		if sentCustom < customs && np > 0 {
			acts = append(acts, 2)
		}
		if len(acts) == 0 {
			break
		}
		switch acts[zzvf.Choose("action", len(acts))] {
		case 0:
			answer()
		case 1:
			VFCacheStep(c)
		case 2:
			sentCustom++
			m.subs["event.test.model"]("event.test.model.query", []byte(`{"subject":"_Q2_"}`), nil)
		}
	}
	for _, s := range subs {
		s.hook = nil
	}
	idle()
	if sentCustom > 0 {
		// the query event that arrived during the lock is processed now
		p := m.pending()
		zzvf.Assert(len(p) == n, "queued-query-event-processed-after-the-lock")
		for _, r := range p {
			zzvf.Assert(r.subject == "_Q2_", "queued-query-event-processed-after-the-lock")
			r.done = true
			r.cb("", []byte(`{"result":{"events":[]}}`), nil)
		}
		idle()
	}
	zzvf.Reach("lw-answered")
	zzvf.Assert(len(m.pending()) == 0, "no-further-requests")
	e.mu.Lock()
	locked, queued := e.locks != nil, len(e.queue)
	e.mu.Unlock()
	zzvf.Assert(!locked && queued == 0, "processing-resumes-after-all-query-requests")
	if extra != nil {
		zzvf.Assert(extra.loaded == 1, "every-subscriber-loaded-exactly-once")
		e.mu.Lock()
		cnt := e.count
		e.mu.Unlock()
		zzvf.Assert(cnt == int64(n+1), "use-count-equals-subscribers")
	}
	for i, s := range subs {
		zzvf.Assert(s.loaded == 1, "every-subscriber-loaded-exactly-once")
		changes, custom := 0, 0
		for _, ev := range s.events {
			switch ev.Event {
			case "change":
				changes++
			default:
				custom++
			}
		}
		zzvf.Assert(applied[i] == 1, "harness-each-query-answered-once")
		zzvf.Assert(changes == wantEvents[i], "each-answer-applied-to-its-query-resource-once")
		zzvf.Assert(custom == 0, "only-the-answers-events-reach-the-subscribers")
		mod, _ := s.rs.GetModel()
		got := ""
		if mod != nil {
			got = string(mod.Values["v"].RawMessage)
		}
		want := string(rune('0' + val[i]))
		if val[i] >= 10 {
			want = string(rune('0'+val[i]/10)) + string(rune('0'+val[i]%10))
		}
		zzvf.Assert(got == want, "cached-value-follows-the-answers")
	}
	// processing has resumed: a new query event yields new query requests
	m.subs["event.test.model"]("event.test.model.query", []byte(`{"subject":"_Q3_"}`), nil)
	idle()
	p := m.pending()
	zzvf.Assert(len(p) == n, "next-query-event-is-processed")
	for _, r := range p {
		zzvf.Assert(r.subject == "_Q3_", "next-query-event-is-processed")
	}
	zzvf.Reach("lw-resumed")
}
