//go:build verif

package rescache

import "sync"

var vfZeroMutex sync.Mutex
