//go:build verif

package rescache

import (
	"encoding/json"

	"github.com/resgateio/resgate/server/codec"
	"github.com/resgateio/resgate/zzvf"
)

func init() {
	zzvf.Register("VF_C15_S1_MalformedEvents", VF_C15_S1_MalformedEvents)
}

var vfBadModelEvents = []struct{ ev, payload string }{
	{"change", `{"values":{"a":%D,"b":{"foo":1}}}`},
	{"change", `{"values":{"a":%D,"b":{"rid":""}}}`},
	{"change", `{"values":{"a":%D,"b":{"rid":"x..y"}}}`},
	{"change", `{"values":{"a":%D,"b":[1]}}`},
	{"change", `{"values":{"a":%D,"b":{"rid":"t.r","action":"delete"}}}`},
	{"change", `{"values":{"a":%D,"b":{"action":"remove"}}}`},
	// (`{"values":5}` is a well-formed v1.0 legacy change event setting the
	// property "values" and is applied as such - not malformed)
	{"change", `{"values":{"b":{"data":1},"c":{"data":{"x":1},"rid":"t.r"}}}`},
	{"change", `{"values":{"a":%D}`},
	{"change", `null`},
	{"change", `"str"`},
	{"add", `{"idx":0,"value":%D}`},
	{"remove", `{"idx":0}`},
}

var vfBadCollectionEvents = []struct{ ev, payload string }{
	{"add", `{"idx":"x","value":%D}`},
	{"add", `{"idx":0}`},
	{"add", `{"idx":0,"value":{"action":"delete"}}`},
	{"add", `{"idx":0,"value":{"foo":1}}`},
	{"add", `{"idx":0,"value":[%D]}`},
	{"add", `{"idx":1.5,"value":%D}`},
	{"add", `{"idx":99999999999999999999,"value":%D}`},
	{"add", `{"idx":0,"value":%D`},
	{"add", `null`},
	{"remove", `{"idx":"0"}`},
	{"remove", `{"idx":-1}`},
	{"remove", `[0]`},
	{"change", `{"values":{"a":%D}}`},
}

func vfFill(tmpl string, d byte) []byte {
	out := make([]byte, 0, len(tmpl))
	for i := 0; i < len(tmpl); i++ {
		if tmpl[i] == '%' && i+1 < len(tmpl) && tmpl[i+1] == 'D' {
			out = append(out, d)
			i++
			continue
		}
		out = append(out, tmpl[i])
	}
	return out
}

// VF_C15_S1_MalformedEvents: a malformed or inapplicable event is discarded
// as a whole - nothing forwarded, value and version unchanged - and a valid
// event that follows is applied normally. Valid parts of the malformed
// message carry a symbolic value that differs from the cached one.
func VF_C15_S1_MalformedEvents() {
	isModel := zzvf.Param("model") == 1
	k := zzvf.Param("case")
	d := zzvf.Byte("digit")
	zzvf.Assume(zzvf.And(d >= '2', d <= '9'))
	st := stateCollection
	list := vfBadCollectionEvents
	if isModel {
		st = stateModel
		list = vfBadModelEvents
	}
	if k >= len(list) {
		zzvf.Reach("c15s1-start")
		zzvf.Reach("c15s1-after-valid")
		zzvf.Assert(true, "no-such-case")
		return
	}
	rs, sub := vfStepRS(st)
	one := codec.Value{RawMessage: json.RawMessage(`1`), Type: codec.ValueTypePrimitive}
	rs.model = &Model{Values: map[string]codec.Value{"a": one}}
	rs.collection = &Collection{Values: []codec.Value{one}}
	rs.e.mu.Lock()
	defer rs.e.mu.Unlock()
	zzvf.Reach("c15s1-start")
	bad := list[k]
	rs.handleEvent(&ResourceEvent{Event: bad.ev, Payload: json.RawMessage(vfFill(bad.payload, d))})
	zzvf.Assert(len(sub.events) == 0, "malformed-event-not-forwarded")
	zzvf.Assert(rs.version == 0, "malformed-event-does-not-bump-version")
	if isModel {
		v, ok := rs.model.Values["a"]
		zzvf.Assert(len(rs.model.Values) == 1 && ok && string(v.RawMessage) == "1", "malformed-event-leaves-model-unchanged")
		rs.handleEvent(&ResourceEvent{Event: "change", Payload: json.RawMessage(`{"values":{"a":7}}`)})
		zzvf.Assert(len(sub.events) == 1 && rs.version == 1 && string(rs.model.Values["a"].RawMessage) == "7", "following-valid-event-applied")
	} else {
		zzvf.Assert(len(rs.collection.Values) == 1 && string(rs.collection.Values[0].RawMessage) == "1", "malformed-event-leaves-collection-unchanged")
		rs.handleEvent(&ResourceEvent{Event: "add", Payload: json.RawMessage(`{"idx":1,"value":7}`)})
		zzvf.Assert(len(sub.events) == 1 && rs.version == 1 && len(rs.collection.Values) == 2, "following-valid-event-applied")
	}
	zzvf.Reach("c15s1-after-valid")
}
