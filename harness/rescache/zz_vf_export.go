//go:build verif

package rescache

import "sort"

// Exported test hooks for the lifecycle harnesses of package server (they
// exist only in the overlay, never in /repo).

// VFCacheStep hands the next scheduled EventSubscription to the real worker
// loop (Cache.startWorker) on a one-element closed channel, so that exactly
// one processQueue run happens. It reports whether anything was scheduled.
func VFCacheStep(c *Cache) bool {
	select {
	case e, ok := <-c.inCh:
		if !ok {
			return false
		}
		ch := make(chan *EventSubscription, 1)
		ch <- e
		close(ch)
		c.startWorker(ch)
		return true
	default:
		return false
	}
}

// VFCachePending reports the number of EventSubscriptions waiting for a worker.
func VFCachePending(c *Cache) int { return len(c.inCh) }

// VFFlushEvictions fires the eviction timer for every queued entry.
func VFFlushEvictions(c *Cache) { c.unsubQueue.Flush() }

// VFPopEvictions takes the expired entries off the eviction queue the way
// the queue's timer goroutine does before it calls the callback.
func VFPopEvictions(c *Cache) []interface{} { return c.unsubQueue.Clear() }

// VFFireEviction runs the eviction callback for an entry popped earlier.
func VFFireEviction(c *Cache, v interface{}) { c.mqUnsubscribe(v) }

// VFEvictionQueueLen is the number of entries waiting for eviction.
func VFEvictionQueueLen(c *Cache) int { return c.unsubQueue.Len() }

// VFEntry describes one cache entry.
type VFEntry struct {
	Name     string
	Count    int64
	HasMQSub bool
	Queued   int
	Locked   bool
	Base     int // state of base resource or -1
	Queries  []string
	Links    []string
	Subs     int // subscribers registered over all resource subscriptions
}

// VFEntries lists the cache entries sorted by name.
func VFEntries(c *Cache) []VFEntry {
	var out []VFEntry
	for name, e := range c.eventSubs {
		ent := VFEntry{Name: name, Count: e.count, HasMQSub: e.mqSub != nil, Queued: len(e.queue), Locked: e.locks != nil, Base: -1}
		seen := map[*ResourceSubscription]bool{}
		if e.base != nil {
			ent.Base = int(e.base.state)
			seen[e.base] = true
			ent.Subs += len(e.base.subs)
		}
		for q, rs := range e.queries {
			ent.Queries = append(ent.Queries, q)
			if !seen[rs] {
				seen[rs] = true
				ent.Subs += len(rs.subs)
			}
		}
		for q := range e.links {
			ent.Links = append(ent.Links, q)
		}
		sort.Strings(ent.Queries)
		sort.Strings(ent.Links)
		out = append(out, ent)
	}
	for i := 1; i < len(out); i++ {
		for j := i; j > 0 && out[j].Name < out[j-1].Name; j-- {
			out[j], out[j-1] = out[j-1], out[j]
		}
	}
	return out
}

// VFConns is the number of connections registered for token reset fan-out.
func VFConns(c *Cache) int { return len(c.conns) }

// VFHasConn reports whether cid is registered for token reset fan-out.
func VFHasConn(c *Cache, cid string) bool { _, ok := c.conns[cid]; return ok }

// VFQueryOf returns the (normalised) query of a resource subscription.
func VFQueryOf(rs *ResourceSubscription) string {
	if rs == nil {
		return ""
	}
	return rs.query
}
