//go:build verif

package rescache

import (
	"testing"

	"github.com/resgateio/resgate/zzvf"
)

func TestVFReplay(t *testing.T) { zzvf.RunReplay() }
