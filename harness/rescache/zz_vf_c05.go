//go:build verif

package rescache

import (
	"github.com/resgateio/resgate/server/codec"
	"github.com/resgateio/resgate/server/reserr"
	"github.com/resgateio/resgate/zzvf"
)

func init() {
	zzvf.Register("VF_C05_K1_CanCall", VF_C05_K1_CanCall)
}

// vfRefCanCall is the reference for the call-list grammar: "*" grants
// everything, otherwise the method must equal one element of the
// comma-separated list (forward scan, no library calls).
func vfRefCanCall(call, method string) bool {
	if call == "*" {
		return true
	}
	if call == "" {
		return false
	}
	start := 0
	for i := 0; i <= len(call); i++ {
		if i == len(call) || call[i] == ',' {
			if call[start:i] == method {
				return true
			}
			start = i + 1
		}
	}
	return false
}

// VF_C05_K1_CanCall: Access.CanCall against the reference, for every call
// list of n bytes and every method of m bytes.
func VF_C05_K1_CanCall() {
	n := zzvf.Param("n")
	m := zzvf.Param("m")
	call := zzvf.Str("call", n)
	method := zzvf.Str("method", m)
	a := &Access{AccessResult: &codec.AccessResult{Get: zzvf.Bool("get"), Call: call}}
	var e *reserr.Error
	if zzvf.Bool("haserr") {
		e = &reserr.Error{Code: "system.custom", Message: "custom"}
		a.Error = e
	}
	zzvf.Reach("c05k1-before-call")
	err := a.CanCall(method)
	if e != nil {
		zzvf.Assert(err == error(e), "cancall-returns-access-error")
		return
	}
	want := vfRefCanCall(call, method)
	zzvf.Assert((err == nil) == want, "cancall-matches-reference")
	if err != nil {
		zzvf.Assert(err == error(reserr.ErrAccessDenied), "cancall-denial-is-accessDenied")
	}
}
