//go:build verif

package nats

import (
	"testing"

	"github.com/resgateio/resgate/zzvf"
)

func TestVFReplay(t *testing.T) { zzvf.RunReplay() }
