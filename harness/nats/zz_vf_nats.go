//go:build verif

package nats

import (
	"strings"
	"time"

	"github.com/jirenius/timerqueue"
	nats "github.com/nats-io/nats.go"
	"github.com/resgateio/resgate/server/mq"
	"github.com/resgateio/resgate/zzvf"
)

func init() {
	zzvf.Register("VF_C18_K2_ClosedHandler", VF_C18_K2_ClosedHandler)
	zzvf.Register("VF_C18_L2_Events", VF_C18_L2_Events)
	zzvf.Register("VF_C18_L1_Adapter", VF_C18_L1_Adapter)
	zzvf.Register("VF_C18_K1_Guards", VF_C18_K1_Guards)
}

type vfNullLogger struct{}

func (vfNullLogger) Log(s string)   {}
func (vfNullLogger) Error(s string) {}
func (vfNullLogger) Debug(s string) {}
func (vfNullLogger) Trace(s string) {}
func (vfNullLogger) IsDebug() bool  { return false }
func (vfNullLogger) IsTrace() bool  { return false }

type vfCompletion struct {
	n    int
	data []byte
	err  error
}

func vfNewClient() *Client {
	c := &Client{RequestTimeout: 3 * time.Second, Logger: vfNullLogger{}, BufferSize: 16}
	c.mq = &nats.Conn{}
	c.mqCh = make(chan *nats.Msg, 16)
	c.mqReqs = make(map[*nats.Subscription]*responseCont)
	c.tq = timerqueue.New(c.onTimeout, c.RequestTimeout)
	c.stopped = make(chan struct{})
	return c
}

// vfPump lets the adapter's listener goroutine handle everything queued.
func vfPump(c *Client) {
	ch, st := c.mqCh, c.stopped
	zzvf.RunUntilBlocked(func() { c.listener(ch, st) }, func() bool { return len(ch) == 0 })
	zzvf.Settle()
}

// VF_C18_K1_Guards: subjects around the control-line limit.
func VF_C18_K1_Guards() {
	extra := zzvf.Param("extra") // subject length = 4066 + extra; the inbox has 29 bytes
	c := vfNewClient()
	subj := strings.Repeat("a", 4066+extra)
	done := &vfCompletion{}
	zzvf.Reach("c18k1-start")
	c.SendRequest(subj, []byte(`{}`), func(s string, data []byte, err error) { done.n++; done.err = err })
	zzvf.Settle()
	subs := zzvf.NatsSubs()
	if len(subj)+29 > nats.MAX_CONTROL_LINE_SIZE {
		zzvf.Assert(done.n == 1 && done.err == error(mq.ErrSubjectTooLong), "too-long-subject-completes-once-with-subjectTooLong")
		zzvf.Assert(len(subs) == 0, "too-long-subject-is-neither-subscribed-nor-published")
	} else {
		zzvf.Assert(done.n == 0 && len(subs) == 1, "fitting-subject-is-sent")
	}
	ns := strings.Repeat("n", 4093+extra)
	_, err := c.Subscribe(ns, func(string, []byte, error) {})
	if len(ns) > nats.MAX_CONTROL_LINE_SIZE-2 {
		zzvf.Assert(err == error(mq.ErrSubjectTooLong), "too-long-namespace-is-refused")
	} else {
		zzvf.Assert(err == nil, "fitting-namespace-is-subscribed")
	}
}

// VF_C18_L1_Adapter: one or two requests through the adapter and up to
// `steps` actions in every order: reply (first byte symbolic: a letter makes
// it a pre-response), timeout pre-response, no-responders status, duplicate
// reply, default timeout expiry, extended timer expiry, a rejected publish.
// The completion callback runs at most once at any time, exactly once after
// a terminal action, never with both a reply and a timeout.
func VF_C18_L1_Adapter() {
	nreq := zzvf.Param("reqs")
	steps := zzvf.Param("steps")
	c := vfNewClient()
	done := make([]*vfCompletion, nreq)
	terminal := make([]string, nreq) // what must have completed request i
	if zzvf.Param("failpublish") == 1 {
		zzvf.NatsFailPublish(true)
	}
	for i := 0; i < nreq; i++ {
		d := &vfCompletion{}
		done[i] = d
		c.SendRequest("call.test.m"+string(rune('0'+i)), []byte(`{}`), func(s string, data []byte, err error) {
			d.n++
			d.data = data
			d.err = err
		})
	}
	zzvf.Settle()
	zzvf.NatsFailPublish(false)
	subs := zzvf.NatsSubs()
	zzvf.Reach("c18l1-sent")
	if zzvf.Param("failpublish") == 1 {
		// a publish error completes the request at once, and only once ever
		for i := range done {
			zzvf.Assert(done[i].n == 1 && done[i].err != nil, "publish-error-completes-once")
		}
		for i := range subs {
			if c.tq.Remove(subs[i].(*nats.Subscription)) {
				c.onTimeout(subs[i].(*nats.Subscription))
			}
		}
		zzvf.Settle()
		for i := range done {
			zzvf.Assert(done[i].n == 1, "no-second-completion-after-publish-error")
		}
		return
	}
	zzvf.Assert(len(subs) == nreq, "harness-one-inbox-subscription-per-request")
	for s := 0; s < steps; s++ {
		i := 0
		if nreq > 1 {
			i = zzvf.Choose("request", nreq)
		}
		sub := subs[i].(*nats.Subscription)
		switch zzvf.Choose("action", 6) {
		case 0: // a message with a symbolic first byte
			b := zzvf.Byte("first")
			letter := zzvf.Or(zzvf.And(b|32 >= 'a', b|32 <= 'z'), false)
			c.mqCh <- &nats.Msg{Subject: sub.Subject, Data: []byte{b, '1'}, Sub: sub}
			vfPump(c)
			if !letter && terminal[i] == "" {
				terminal[i] = "reply"
			}
		case 1: // pre-response extending the timeout
			c.mqCh <- &nats.Msg{Subject: sub.Subject, Data: []byte(`timeout:"5000"`), Sub: sub}
			vfPump(c)
		case 2: // no responders
			c.mqCh <- &nats.Msg{Subject: sub.Subject, Data: nil, Header: nats.Header{"Status": []string{"503"}}, Sub: sub}
			vfPump(c)
			if terminal[i] == "" {
				terminal[i] = "notfound"
			}
		case 3: // the default timeout of this request expires (if still queued)
			if c.tq.Remove(sub) {
				c.onTimeout(sub)
				if terminal[i] == "" {
					terminal[i] = "timeout"
				}
			}
		case 4: // an extended timer expires
			if n := zzvf.ArmedTimers(); n > 0 {
				before := make([]int, nreq)
				for k := range done {
					before[k] = done[k].n
				}
				zzvf.FireTimer(zzvf.Choose("timer", n))
				for k := range done {
					if done[k].n > before[k] && terminal[k] == "" {
						terminal[k] = "timeout"
					}
				}
			}
		case 5: // empty reply without status header
			c.mqCh <- &nats.Msg{Subject: sub.Subject, Data: []byte{}, Sub: sub}
			vfPump(c)
			if terminal[i] == "" {
				terminal[i] = "reply"
			}
		}
		zzvf.Settle()
		for k := range done {
			zzvf.Assert(done[k].n <= 1, "completion-callback-at-most-once")
			switch terminal[k] {
			case "":
				zzvf.Assert(done[k].n == 0, "no-completion-before-a-terminal-action")
			case "reply":
				zzvf.Assert(done[k].n == 1 && done[k].err == nil, "reply-completes-with-data")
			case "notfound":
				zzvf.Assert(done[k].n == 1 && done[k].err == error(mq.ErrNoResponders), "no-responders-completes-with-notFound")
			case "timeout":
				zzvf.Assert(done[k].n == 1 && done[k].err == error(mq.ErrRequestTimeout), "expiry-completes-with-timeout")
			}
			if terminal[k] != "" {
				zzvf.Reach("c18l1-completed")
				zzvf.Assert(zzvf.NatsUnsubscribed(subs[k]) >= 1, "inbox-unsubscribed-after-completion")
				_, still := c.mqReqs[subs[k].(*nats.Subscription)]
				zzvf.Assert(!still, "completed-request-forgotten")
			}
		}
		// at most one pending expiry per open request
		open := 0
		for k := range done {
			if terminal[k] == "" {
				open++
			}
		}
		zzvf.Assert(zzvf.ArmedTimers()+c.tq.Len() == open, "exactly-one-pending-expiry-per-open-request")
	}
}

// VF_C18_L2_Events: an event subscription through the adapter. n messages
// are published; the listener handles them in batches of any size (the rest
// stays buffered in the adapter's channel); Unsubscribe is called at any
// point, with the library's Unsubscribe succeeding or failing (connection
// already lost). The callback sees the messages in publish order, each at
// most once, and none after Unsubscribe has returned - whatever the library
// call answered; a second, unrelated subscription is not affected.
func VF_C18_L2_Events() {
	n := zzvf.Param("msgs")
	c := vfNewClient()
	var seen []byte
	var other []byte
	us, err := c.Subscribe("event.test.model", func(subj string, data []byte, _ error) {
		seen = append(seen, data[0])
	})
	zzvf.Assert(err == nil && us != nil, "subscribe-succeeds")
	_, err2 := c.Subscribe("event.test.other", func(subj string, data []byte, _ error) {
		other = append(other, data[0])
	})
	zzvf.Assert(err2 == nil, "subscribe-succeeds")
	subs := zzvf.NatsSubs()
	zzvf.Assert(len(subs) == 2, "harness-two-library-subscriptions")
	sub, sub2 := subs[0].(*nats.Subscription), subs[1].(*nats.Subscription)
	zzvf.Reach("c18l2-subscribed")
	published, otherPublished := 0, 0
	unsubscribed := false
	seenAtUnsub := 0
	for step := 0; step < 3*n+4; step++ {
		var acts []int
		if published < n {
			acts = append(acts, 0)
		}
		if len(c.mqCh) > 0 {
			acts = append(acts, 1)
		}
		if !unsubscribed {
			acts = append(acts, 2)
		}
		if otherPublished < 1 {
			acts = append(acts, 3)
		}
		if len(acts) == 0 {
			break
		}
		switch acts[zzvf.Choose("action", len(acts))] {
		case 0:
			published++
			c.mqCh <- &nats.Msg{Subject: "event.test.model.custom", Data: []byte{byte('0' + published)}, Sub: sub}
		case 1:
			vfPump(c)
		case 2:
			if zzvf.Choose("library-unsubscribe-fails", 2) == 1 {
				zzvf.NatsFailUnsubscribe(true)
				zzvf.Tag("library-unsubscribe-fails")
			}
			us.Unsubscribe()
			zzvf.NatsFailUnsubscribe(false)
			unsubscribed = true
			seenAtUnsub = len(seen)
		case 3:
			otherPublished++
			c.mqCh <- &nats.Msg{Subject: "event.test.other.custom", Data: []byte{'x'}, Sub: sub2}
		}
		if unsubscribed {
			zzvf.Assert(len(seen) == seenAtUnsub, "no-message-reaches-the-callback-after-unsubscribe-returned")
		}
	}
	vfPump(c)
	zzvf.Reach("c18l2-drained")
	if unsubscribed {
		zzvf.Assert(len(seen) == seenAtUnsub, "no-message-reaches-the-callback-after-unsubscribe-returned")
	} else {
		zzvf.Assert(len(seen) == published, "every-message-reaches-the-callback")
	}
	for i := range seen {
		zzvf.Assert(seen[i] == byte('1'+i), "messages-reach-the-callback-in-publish-order-each-once")
	}
	zzvf.Assert(len(other) == otherPublished, "other-subscription-unaffected")
}

// VF_C18_K2_ClosedHandler: the library reports the loss of the server
// connection (its closed callback runs, the connection object says closed):
// the adapter invokes the registered closed handler exactly once with an
// error, with or without requests pending; without a registered handler
// nothing happens (no crash).
func VF_C18_K2_ClosedHandler() {
	c := vfNewClient()
	calls := 0
	var got error
	registered := zzvf.Choose("handler-registered", 2) == 1
	if registered {
		c.SetClosedHandler(func(err error) { calls++; got = err })
	}
	done := &vfCompletion{}
	if zzvf.Choose("request-pending", 2) == 1 {
		c.SendRequest("call.test.m", []byte(`{}`), func(s string, data []byte, err error) { done.n++ })
		zzvf.Settle()
	}
	zzvf.Reach("c18k2-lost")
	// the connection is gone by the time the library runs the callback
	zzvf.NatsSetClosed(true)
	c.onClose(c.mq)
	zzvf.Settle()
	if registered {
		zzvf.Assert(calls == 1 && got != nil, "loss-of-the-connection-invokes-the-closed-handler-once")
	} else {
		zzvf.Assert(calls == 0, "no-handler-no-call")
	}
	zzvf.Assert(c.IsClosed(), "adapter-reports-closed")
}
