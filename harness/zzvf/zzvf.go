// Package zzvf is the harness vocabulary. Under the symbolic engine (vfrun)
// every function here is intercepted and its body ignored. Compiled natively
// (go test -overlay ... -tags verif) the functions replay a solver assignment
// read from the file named by $VF_REPLAY against the real code.
package zzvf

import (
	"encoding/json"
	"fmt"
	"os"
	"sync"
	"time"
)

type replayFile struct {
	Harness string         `json:"harness"`
	Params  map[string]int `json:"params"`
	Inputs  []struct {
		Name string `json:"name"`
		Val  uint64 `json:"val"`
		W    int    `json:"w"`
	} `json:"inputs"`
	Choices []int64 `json:"choices"`
	Assert  string  `json:"assert"`
}

var (
	mu       sync.Mutex
	rp       replayFile
	inPos    int
	chPos    int
	registry = map[string]func(){}
	// ExpectedPanic is set by ExpectPanic (native mode).
	ExpectedPanic string
)

// Register makes a harness function known to the native replay driver.
func Register(name string, f func()) { registry[name] = f }

// Symbolic reports whether the harness runs under the symbolic engine.
func Symbolic() bool { return false }

func nextInput(name string) uint64 {
	mu.Lock()
	defer mu.Unlock()
	if inPos >= len(rp.Inputs) {
		// unconstrained input: any value will do
		inPos++
		return 0
	}
	v := rp.Inputs[inPos].Val
	inPos++
	return v
}

func Param(name string) int {
	v, ok := rp.Params[name]
	if !ok {
		panic("zzvf: missing parameter " + name)
	}
	return v
}

func Int(name string) int       { return int(nextInput(name)) }
func Int64(name string) int64   { return int64(nextInput(name)) }
func Int32(name string) int32   { return int32(nextInput(name)) }
func Uint(name string) uint     { return uint(nextInput(name)) }
func Uint64(name string) uint64 { return nextInput(name) }
func Byte(name string) byte     { return byte(nextInput(name)) }
func Bool(name string) bool     { return nextInput(name)&1 == 1 }

func Str(name string, n int) string {
	b := make([]byte, n)
	for i := range b {
		b[i] = byte(nextInput(name))
	}
	return string(b)
}

func Bytes(name string, n int) []byte {
	b := make([]byte, n)
	for i := range b {
		b[i] = byte(nextInput(name))
	}
	return b
}

func Choose(name string, n int) int {
	mu.Lock()
	defer mu.Unlock()
	if chPos >= len(rp.Choices) {
		chPos++
		return 0
	}
	v := int(rp.Choices[chPos])
	chPos++
	if v >= n {
		fmt.Printf("VF-REPLAY-MISMATCH choice %s=%d out of %d\n", name, v, n)
		os.Exit(3)
	}
	return v
}

func Assume(b bool) {
	if !b {
		fmt.Println("VF-ASSUME-FAIL (replay assignment violates an assumption)")
		os.Exit(3)
	}
}

func Assert(b bool, id string) {
	if !b {
		fmt.Printf("VF-ASSERT-FAIL %s\n", id)
		if continueKnown && rp.Assert != "" && rp.Assert != id {
			// a listed known finding earlier on the history being replayed
			return
		}
		os.Exit(1)
	}
}

// ContinueAfterKnown: a harness that resynchronises its model after a listed
// known finding lets the path go on past it, so that a different violation
// further down the same history is still found. (Natively: a failing
// assertion other than the one being replayed does not stop the run.)
func ContinueAfterKnown(on bool) { continueKnown = on }

var continueKnown bool

func Reach(id string)       {}
func Tag(id string)         { fmt.Printf("VF-TAG %s\n", id) }
func Note(s string)         { fmt.Printf("VF-NOTE %s\n", s) }
func ExpectPanic(id string) { ExpectedPanic = id }
func MapOrder(reverse bool) {}
func IsConcrete(v any) bool { return true }

// Ite is a value-level conditional (no fork under the engine).
func Ite(c bool, a, b int) int {
	if c {
		return a
	}
	return b
}

// RunUntilBlocked runs f until it returns or parks on a channel. Natively f
// runs in its own goroutine and idle() is polled; the goroutine may stay
// parked afterwards.
func RunUntilBlocked(f func(), idle func() bool) {
	done := make(chan struct{})
	go func() {
		defer close(done)
		f()
	}()
	deadline := time.Now().Add(5 * time.Second)
	for {
		select {
		case <-done:
			return
		default:
		}
		if idle() {
			// give the worker a moment to park
			time.Sleep(200 * time.Microsecond)
			if idle() {
				return
			}
		}
		if time.Now().After(deadline) {
			fmt.Println("VF-REPLAY-TIMEOUT worker did not become idle")
			os.Exit(3)
		}
		time.Sleep(50 * time.Microsecond)
	}
}

// Spawned / RunSpawned / Settle control goroutines started by `go` under the
// engine. Natively goroutines run by themselves; Settle just waits briefly.
func Spawned() int     { return 0 }
func RunSpawned(i int) {}
func Settle()          { time.Sleep(2 * time.Millisecond) }

// RunReplay is the body of TestVFReplay in every harness package.
func RunReplay() {
	path := os.Getenv("VF_REPLAY")
	if path == "" {
		fmt.Println("VF-REPLAY-SKIP (no VF_REPLAY)")
		return
	}
	data, err := os.ReadFile(path)
	if err != nil {
		fmt.Println("VF-REPLAY-ERROR", err)
		os.Exit(3)
	}
	if err := json.Unmarshal(data, &rp); err != nil {
		fmt.Println("VF-REPLAY-ERROR", err)
		os.Exit(3)
	}
	f, ok := registry[rp.Harness]
	if !ok {
		fmt.Println("VF-REPLAY-NOHARNESS", rp.Harness)
		return
	}
	defer func() {
		if r := recover(); r != nil {
			if ExpectedPanic != "" {
				fmt.Printf("VF-EXPECTED-PANIC %s: %v\n", ExpectedPanic, r)
				return
			}
			fmt.Printf("VF-PANIC %v\n", r)
			os.Exit(1)
		}
	}()
	f()
	fmt.Println("VF-REPLAY-PASS", rp.Harness)
}

// Value-level boolean connectives (no fork under the engine).
func And(a, b bool) bool     { return a && b }
func Or(a, b bool) bool      { return a || b }
func Not(a bool) bool        { return !a }
func Implies(a, b bool) bool { return !a || b }
func Iff(a, b bool) bool     { return a == b }

// StrEq / BytesEq compare without forking under the engine.
func StrEq(a, b string) bool   { return a == b }
func BytesEq(a, b []byte) bool { return string(a) == string(b) }

// WSFrames returns the frames written to a websocket connection under the
// engine (natively frames are read from the peer; nil here).
func WSFrames(ws any) []string { return nil }

// OnBlock registers a callback the engine runs while a channel receive of the
// code under test would block (the other actors get to run); it returns
// whether it made progress. nil removes it. Natively blocked goroutines simply
// wait while the harness goes on.
func OnBlock(fn func() bool) {}

// TimeoutsFired is the number of time.After cases the engine let fire because
// nothing else could happen (engine only; natively the clock is real).
func TimeoutsFired() int { return 0 }

// WSReader registers the function the engine's ReadMessage model asks for the
// next incoming frame of a connection: state 0 = frame, 1 = nothing to read
// yet (the reader blocks), 2 = closed by the peer. Natively the harness writes
// to the peer socket instead.
func WSReader(ws any, fn func() ([]byte, int)) {}

// WSClosed reports whether Close was called on the connection (engine only).
func WSClosed(ws any) bool { return false }

// DropSpawnedFrom discards the goroutine thunks recorded since Spawned()
// returned n (engine only).
func DropSpawnedFrom(n int) {}

// DropSpawned discards goroutine thunks recorded so far (engine only).
func DropSpawned() {}

// ParamOr is Param with a default for instances that do not set it.
func ParamOr(name string, def int) int {
	if v, ok := rp.Params[name]; ok {
		return v
	}
	return def
}

// Engine-only hooks of the NATS adapter harness (C18). Natively the NATS
// client library needs a server, so that harness has no native mode.
func NatsSubs() []any              { return nil }
func NatsUnsubscribed(sub any) int { return 0 }
func NatsFailPublish(fail bool)    {}
func NatsFailUnsubscribe(fail bool) {}
func NatsSetClosed(closed bool)     {}
func ArmedTimers() int             { return 0 }
func FireTimer(k int) bool         { return false }
