// Package smt is a small hash-consed term layer over QF_BV plus a driver for
// long-lived SMT-LIB2 solver processes (z3 -in, cvc5 --incremental).
package smt

import (
	"fmt"
	"math/bits"
	"strings"
)

// Term is a node of the term DAG. W==0 means Bool, otherwise a bit-vector of
// width W (1..64).
type Term struct {
	Op   string
	Args []*Term
	W    int
	Val  uint64 // for Op=="const" (bv value or 0/1 for bool)
	Name string // for Op=="var"
	P1   int    // extract hi / extend amount
	P2   int    // extract lo
	ID   int
	key  string
}

// Ctx owns the hash-cons table. One per worker (not goroutine safe).
type Ctx struct {
	tab   map[string]*Term
	next  int
	Vars  []*Term // declared variables in creation order
	varBy map[string]*Term
	True  *Term
	False *Term
}

func NewCtx() *Ctx {
	c := &Ctx{tab: map[string]*Term{}, varBy: map[string]*Term{}}
	c.True = c.mk(&Term{Op: "const", W: 0, Val: 1})
	c.False = c.mk(&Term{Op: "const", W: 0, Val: 0})
	return c
}

func (c *Ctx) mk(t *Term) *Term {
	var sb strings.Builder
	fmt.Fprintf(&sb, "%s/%d/%d/%s/%d/%d", t.Op, t.W, t.Val, t.Name, t.P1, t.P2)
	for _, a := range t.Args {
		fmt.Fprintf(&sb, ",%d", a.ID)
	}
	k := sb.String()
	if old, ok := c.tab[k]; ok {
		return old
	}
	c.next++
	t.ID = c.next
	t.key = k
	c.tab[k] = t
	return t
}

func mask(w int) uint64 {
	if w >= 64 {
		return ^uint64(0)
	}
	return (uint64(1) << uint(w)) - 1
}

func (t *Term) IsConst() bool { return t.Op == "const" }
func (t *Term) IsBool() bool  { return t.W == 0 }

// Var returns (creating if needed) a variable. w==0 => Bool.
func (c *Ctx) Var(name string, w int) *Term {
	if v, ok := c.varBy[name]; ok {
		if v.W != w {
			panic(fmt.Sprintf("smt: variable %s redeclared with width %d (was %d)", name, w, v.W))
		}
		return v
	}
	v := c.mk(&Term{Op: "var", W: w, Name: name})
	c.varBy[name] = v
	c.Vars = append(c.Vars, v)
	return v
}

func (c *Ctx) BV(v uint64, w int) *Term {
	return c.mk(&Term{Op: "const", W: w, Val: v & mask(w)})
}

func (c *Ctx) Bool(b bool) *Term {
	if b {
		return c.True
	}
	return c.False
}

func sext(v uint64, w int) int64 {
	if w >= 64 {
		return int64(v)
	}
	sh := uint(64 - w)
	return int64(v<<sh) >> sh
}

// ---- boolean connectives

func (c *Ctx) Not(a *Term) *Term {
	if a.IsConst() {
		return c.Bool(a.Val == 0)
	}
	if a.Op == "not" {
		return a.Args[0]
	}
	return c.mk(&Term{Op: "not", Args: []*Term{a}})
}

func (c *Ctx) And(a, b *Term) *Term {
	if a.IsConst() {
		if a.Val == 0 {
			return c.False
		}
		return b
	}
	if b.IsConst() {
		if b.Val == 0 {
			return c.False
		}
		return a
	}
	if a == b {
		return a
	}
	if (a.Op == "not" && a.Args[0] == b) || (b.Op == "not" && b.Args[0] == a) {
		return c.False
	}
	return c.mk(&Term{Op: "and", Args: []*Term{a, b}})
}

func (c *Ctx) Or(a, b *Term) *Term {
	if a.IsConst() {
		if a.Val == 1 {
			return c.True
		}
		return b
	}
	if b.IsConst() {
		if b.Val == 1 {
			return c.True
		}
		return a
	}
	if a == b {
		return a
	}
	if (a.Op == "not" && a.Args[0] == b) || (b.Op == "not" && b.Args[0] == a) {
		return c.True
	}
	return c.mk(&Term{Op: "or", Args: []*Term{a, b}})
}

func (c *Ctx) Implies(a, b *Term) *Term { return c.Or(c.Not(a), b) }

func (c *Ctx) Ite(cond, a, b *Term) *Term {
	if cond.IsConst() {
		if cond.Val == 1 {
			return a
		}
		return b
	}
	if a == b {
		return a
	}
	if a.W != b.W {
		panic("smt: ite width mismatch")
	}
	if a.W == 0 {
		if a.IsConst() && b.IsConst() {
			if a.Val == 1 { // ite(c, true, false)
				return cond
			}
			return c.Not(cond)
		}
		if a.IsConst() {
			if a.Val == 1 {
				return c.Or(cond, b)
			}
			return c.And(c.Not(cond), b)
		}
		if b.IsConst() {
			if b.Val == 1 {
				return c.Or(c.Not(cond), a)
			}
			return c.And(cond, a)
		}
	}
	return c.mk(&Term{Op: "ite", W: a.W, Args: []*Term{cond, a, b}})
}

func (c *Ctx) Eq(a, b *Term) *Term {
	if a.W != b.W {
		panic(fmt.Sprintf("smt: eq width mismatch %d vs %d", a.W, b.W))
	}
	if a == b {
		return c.True
	}
	if a.IsConst() && b.IsConst() {
		return c.Bool(a.Val == b.Val)
	}
	if a.W == 0 {
		if a.IsConst() {
			if a.Val == 1 {
				return b
			}
			return c.Not(b)
		}
		if b.IsConst() {
			if b.Val == 1 {
				return a
			}
			return c.Not(a)
		}
	}
	// push equality with a constant through ite of constants: keeps byte
	// comparisons against literal strings small.
	if b.IsConst() && a.Op == "ite" {
		return c.Ite(a.Args[0], c.Eq(a.Args[1], b), c.Eq(a.Args[2], b))
	}
	if a.IsConst() && b.Op == "ite" {
		return c.Ite(b.Args[0], c.Eq(a, b.Args[1]), c.Eq(a, b.Args[2]))
	}
	if a.ID > b.ID {
		a, b = b, a
	}
	return c.mk(&Term{Op: "=", Args: []*Term{a, b}})
}

// ---- bit-vector operations

func evalBin(op string, x, y uint64, w int) (uint64, bool) {
	m := mask(w)
	switch op {
	case "bvadd":
		return (x + y) & m, true
	case "bvsub":
		return (x - y) & m, true
	case "bvmul":
		return (x * y) & m, true
	case "bvand":
		return x & y, true
	case "bvor":
		return x | y, true
	case "bvxor":
		return x ^ y, true
	case "bvudiv":
		if y == 0 {
			return m, true
		}
		return x / y, true
	case "bvurem":
		if y == 0 {
			return x, true
		}
		return x % y, true
	case "bvsdiv":
		sx, sy := sext(x, w), sext(y, w)
		if sy == 0 {
			if sx < 0 {
				return 1, true
			}
			return m, true
		}
		if sy == -1 {
			return uint64(-sx) & m, true
		}
		return uint64(sx/sy) & m, true
	case "bvsrem":
		sx, sy := sext(x, w), sext(y, w)
		if sy == 0 {
			return x, true
		}
		if sy == -1 {
			return 0, true
		}
		return uint64(sx%sy) & m, true
	case "bvshl":
		if y >= uint64(w) {
			return 0, true
		}
		return (x << y) & m, true
	case "bvlshr":
		if y >= uint64(w) {
			return 0, true
		}
		return x >> y, true
	case "bvashr":
		sx := sext(x, w)
		if y >= uint64(w) {
			if sx < 0 {
				return m, true
			}
			return 0, true
		}
		return uint64(sx>>y) & m, true
	}
	return 0, false
}

func evalCmp(op string, x, y uint64, w int) bool {
	switch op {
	case "bvult":
		return x < y
	case "bvule":
		return x <= y
	case "bvslt":
		return sext(x, w) < sext(y, w)
	case "bvsle":
		return sext(x, w) <= sext(y, w)
	}
	panic("smt: bad cmp " + op)
}

// Bin builds a binary bit-vector operation (bvadd, bvsub, ...).
func (c *Ctx) Bin(op string, a, b *Term) *Term {
	if a.W != b.W || a.W == 0 {
		panic(fmt.Sprintf("smt: %s width mismatch %d vs %d", op, a.W, b.W))
	}
	if a.IsConst() && b.IsConst() {
		v, ok := evalBin(op, a.Val, b.Val, a.W)
		if !ok {
			panic("smt: unknown op " + op)
		}
		return c.BV(v, a.W)
	}
	switch op {
	case "bvadd", "bvor", "bvxor":
		if b.IsConst() && b.Val == 0 {
			return a
		}
		if a.IsConst() && a.Val == 0 {
			return b
		}
	case "bvsub", "bvshl", "bvlshr", "bvashr":
		if b.IsConst() && b.Val == 0 {
			return a
		}
	case "bvand":
		if b.IsConst() && b.Val == mask(a.W) {
			return a
		}
		if a.IsConst() && a.Val == mask(a.W) {
			return b
		}
		if (b.IsConst() && b.Val == 0) || (a.IsConst() && a.Val == 0) {
			return c.BV(0, a.W)
		}
	case "bvmul":
		if b.IsConst() && b.Val == 1 {
			return a
		}
		if a.IsConst() && a.Val == 1 {
			return b
		}
	}
	// (x + c1) + c2 => x + (c1+c2)
	if op == "bvadd" && b.IsConst() && a.Op == "bvadd" && a.Args[1].IsConst() {
		return c.Bin("bvadd", a.Args[0], c.BV(a.Args[1].Val+b.Val, a.W))
	}
	if op == "bvsub" && b.IsConst() {
		return c.Bin("bvadd", a, c.BV(-b.Val, a.W))
	}
	return c.mk(&Term{Op: op, W: a.W, Args: []*Term{a, b}})
}

// Cmp builds bvult/bvule/bvslt/bvsle.
func (c *Ctx) Cmp(op string, a, b *Term) *Term {
	if a.W != b.W || a.W == 0 {
		panic(fmt.Sprintf("smt: %s width mismatch %d vs %d", op, a.W, b.W))
	}
	if a.IsConst() && b.IsConst() {
		return c.Bool(evalCmp(op, a.Val, b.Val, a.W))
	}
	if a == b {
		return c.Bool(op == "bvule" || op == "bvsle")
	}
	return c.mk(&Term{Op: op, Args: []*Term{a, b}})
}

func (c *Ctx) BvNot(a *Term) *Term {
	if a.IsConst() {
		return c.BV(^a.Val, a.W)
	}
	return c.mk(&Term{Op: "bvnot", W: a.W, Args: []*Term{a}})
}

func (c *Ctx) BvNeg(a *Term) *Term {
	if a.IsConst() {
		return c.BV(-a.Val, a.W)
	}
	return c.mk(&Term{Op: "bvneg", W: a.W, Args: []*Term{a}})
}

func (c *Ctx) Extract(a *Term, hi, lo int) *Term {
	w := hi - lo + 1
	if a.IsConst() {
		return c.BV(a.Val>>uint(lo), w)
	}
	if lo == 0 && w == a.W {
		return a
	}
	if (a.Op == "zext" || a.Op == "sext") && lo == 0 && w <= a.Args[0].W {
		return c.Extract(a.Args[0], hi, 0)
	}
	return c.mk(&Term{Op: "extract", W: w, Args: []*Term{a}, P1: hi, P2: lo})
}

func (c *Ctx) ZeroExt(a *Term, to int) *Term {
	if to == a.W {
		return a
	}
	if a.IsConst() {
		return c.BV(a.Val, to)
	}
	if a.Op == "ite" && a.Args[1].IsConst() && a.Args[2].IsConst() {
		return c.Ite(a.Args[0], c.ZeroExt(a.Args[1], to), c.ZeroExt(a.Args[2], to))
	}
	return c.mk(&Term{Op: "zext", W: to, Args: []*Term{a}, P1: to - a.W})
}

func (c *Ctx) SignExt(a *Term, to int) *Term {
	if to == a.W {
		return a
	}
	if a.IsConst() {
		return c.BV(uint64(sext(a.Val, a.W)), to)
	}
	return c.mk(&Term{Op: "sext", W: to, Args: []*Term{a}, P1: to - a.W})
}

// Resize converts a to width `to`, sign- or zero-extending / truncating.
func (c *Ctx) Resize(a *Term, to int, signed bool) *Term {
	switch {
	case to == a.W:
		return a
	case to < a.W:
		return c.Extract(a, to-1, 0)
	case signed:
		return c.SignExt(a, to)
	default:
		return c.ZeroExt(a, to)
	}
}

// ---- evaluation under a model

type Model map[string]uint64

func (t *Term) Eval(m Model) uint64 {
	memo := map[*Term]uint64{}
	return t.eval(m, memo)
}

func (t *Term) eval(m Model, memo map[*Term]uint64) uint64 {
	if t.Op == "const" {
		return t.Val
	}
	if v, ok := memo[t]; ok {
		return v
	}
	var r uint64
	a := func(i int) uint64 { return t.Args[i].eval(m, memo) }
	b2u := func(b bool) uint64 {
		if b {
			return 1
		}
		return 0
	}
	switch t.Op {
	case "var":
		r = m[t.Name] & maskb(t.W)
	case "not":
		r = 1 - a(0)
	case "and":
		r = a(0) & a(1)
	case "or":
		r = a(0) | a(1)
	case "ite":
		if a(0) == 1 {
			r = a(1)
		} else {
			r = a(2)
		}
	case "=":
		r = b2u(a(0) == a(1))
	case "bvult", "bvule", "bvslt", "bvsle":
		r = b2u(evalCmp(t.Op, a(0), a(1), t.Args[0].W))
	case "bvnot":
		r = ^a(0) & mask(t.W)
	case "bvneg":
		r = -a(0) & mask(t.W)
	case "extract":
		r = (a(0) >> uint(t.P2)) & mask(t.W)
	case "zext":
		r = a(0)
	case "sext":
		r = uint64(sext(a(0), t.Args[0].W)) & mask(t.W)
	default:
		v, ok := evalBin(t.Op, a(0), a(1), t.W)
		if !ok {
			panic("smt: eval: unknown op " + t.Op)
		}
		r = v
	}
	memo[t] = r
	return r
}

func maskb(w int) uint64 {
	if w == 0 {
		return 1
	}
	return mask(w)
}

// Size returns the number of distinct nodes reachable from t.
func (t *Term) Size() int {
	seen := map[*Term]bool{}
	var rec func(*Term)
	rec = func(x *Term) {
		if seen[x] {
			return
		}
		seen[x] = true
		for _, a := range x.Args {
			rec(a)
		}
	}
	rec(t)
	return len(seen)
}

// HasVar reports whether t depends on at least one variable.
func (t *Term) HasVar() bool { return !t.IsConst() }

func sortOf(w int) string {
	if w == 0 {
		return "Bool"
	}
	return fmt.Sprintf("(_ BitVec %d)", w)
}

func constStr(t *Term) string {
	if t.W == 0 {
		if t.Val == 1 {
			return "true"
		}
		return "false"
	}
	if t.W%4 == 0 {
		return fmt.Sprintf("#x%0*x", t.W/4, t.Val)
	}
	return fmt.Sprintf("#b%0*b", t.W, t.Val)
}

var _ = bits.Len
