package smt

import (
	"bufio"
	"fmt"
	"io"
	"os/exec"
	"regexp"
	"strconv"
	"strings"
	"time"
)

type Result int

const (
	Unknown Result = iota
	Sat
	Unsat
)

func (r Result) String() string {
	switch r {
	case Sat:
		return "sat"
	case Unsat:
		return "unsat"
	}
	return "unknown"
}

// Solver drives one long-lived solver process over stdin/stdout.
type Solver struct {
	Kind    string // "z3", "z3-new", "cvc5"
	cmd     *exec.Cmd
	in      io.WriteCloser
	out     *bufio.Reader
	scopes  []map[int]bool // term IDs defined per scope
	buf     strings.Builder
	Queries int
	Time    time.Duration
	Errors  []string
	Log     io.Writer // optional transcript
	dead    bool
}

func NewSolver(kind string, timeoutMs int) (*Solver, error) {
	var cmd *exec.Cmd
	switch kind {
	case "z3", "z3-new":
		cmd = exec.Command(kind, "-in", fmt.Sprintf("-t:%d", timeoutMs))
	case "cvc5":
		cmd = exec.Command("cvc5", "--incremental", "--lang", "smt2", "--produce-models", fmt.Sprintf("--tlimit-per=%d", timeoutMs))
	default:
		return nil, fmt.Errorf("unknown solver %q", kind)
	}
	in, err := cmd.StdinPipe()
	if err != nil {
		return nil, err
	}
	outp, err := cmd.StdoutPipe()
	if err != nil {
		return nil, err
	}
	cmd.Stderr = cmd.Stdout
	if err := cmd.Start(); err != nil {
		return nil, err
	}
	s := &Solver{Kind: kind, cmd: cmd, in: in, out: bufio.NewReaderSize(outp, 1<<16)}
	s.scopes = []map[int]bool{{}}
	if kind == "cvc5" {
		s.raw("(set-logic QF_BV)\n")
	} else {
		s.raw("(set-option :produce-models true)\n")
	}
	return s, nil
}

func (s *Solver) raw(txt string) {
	if s.Log != nil {
		io.WriteString(s.Log, txt)
	}
	s.buf.WriteString(txt)
}

func (s *Solver) flush() {
	if s.dead {
		s.buf.Reset()
		return
	}
	if _, err := io.WriteString(s.in, s.buf.String()); err != nil {
		s.dead = true
		s.Errors = append(s.Errors, "write: "+err.Error())
	}
	s.buf.Reset()
}

func (s *Solver) Close() {
	if s.cmd != nil {
		s.in.Close()
		s.cmd.Process.Kill()
		s.cmd.Wait()
	}
}

func (s *Solver) Push() {
	s.raw("(push 1)\n")
	s.scopes = append(s.scopes, map[int]bool{})
}

func (s *Solver) Pop() {
	s.raw("(pop 1)\n")
	s.scopes = s.scopes[:len(s.scopes)-1]
}

func (s *Solver) Level() int { return len(s.scopes) - 1 }

// Dead reports whether the solver process is gone.
func (s *Solver) Dead() bool { return s.dead }

func (s *Solver) isDefined(id int) bool {
	for _, m := range s.scopes {
		if m[id] {
			return true
		}
	}
	return false
}

func ref(t *Term) string {
	switch t.Op {
	case "const":
		return constStr(t)
	case "var":
		return t.Name
	}
	return "t" + strconv.Itoa(t.ID)
}

// define emits declarations/definitions for every node below t that is not
// yet defined in an active scope. Iterative post-order (terms can be deep).
func (s *Solver) define(t *Term) {
	type fr struct {
		t *Term
		i int
	}
	if t.Op == "const" {
		return
	}
	stack := []fr{{t, 0}}
	for len(stack) > 0 {
		top := &stack[len(stack)-1]
		if top.i == 0 && (top.t.Op == "const" || s.isDefined(top.t.ID)) {
			stack = stack[:len(stack)-1]
			continue
		}
		if top.i < len(top.t.Args) {
			a := top.t.Args[top.i]
			top.i++
			if a.Op != "const" && !s.isDefined(a.ID) {
				stack = append(stack, fr{a, 0})
			}
			continue
		}
		x := top.t
		stack = stack[:len(stack)-1]
		if s.isDefined(x.ID) {
			continue
		}
		s.scopes[len(s.scopes)-1][x.ID] = true
		if x.Op == "var" {
			s.raw(fmt.Sprintf("(declare-const %s %s)\n", x.Name, sortOf(x.W)))
			continue
		}
		var sb strings.Builder
		fmt.Fprintf(&sb, "(define-fun t%d () %s (", x.ID, sortOf(x.W))
		switch x.Op {
		case "extract":
			fmt.Fprintf(&sb, "(_ extract %d %d)", x.P1, x.P2)
		case "zext":
			fmt.Fprintf(&sb, "(_ zero_extend %d)", x.P1)
		case "sext":
			fmt.Fprintf(&sb, "(_ sign_extend %d)", x.P1)
		default:
			sb.WriteString(x.Op)
		}
		for _, a := range x.Args {
			sb.WriteByte(' ')
			sb.WriteString(ref(a))
		}
		sb.WriteString("))\n")
		s.raw(sb.String())
	}
}

func (s *Solver) Assert(t *Term) {
	if t.W != 0 {
		panic("smt: assert of non-bool")
	}
	s.define(t)
	s.raw("(assert " + ref(t) + ")\n")
}

const marker = "<<vf-done>>"

func (s *Solver) readUntilMarker() []string {
	var lines []string
	for {
		line, err := s.out.ReadString('\n')
		line = strings.TrimSpace(line)
		if line == marker || line == `"`+marker+`"` {
			return lines
		}
		if line != "" {
			lines = append(lines, line)
		}
		if err != nil {
			s.dead = true
			s.Errors = append(s.Errors, "solver died: "+err.Error())
			return lines
		}
	}
}

// Check runs (check-sat) in the current context.
func (s *Solver) Check() Result {
	s.raw("(check-sat)\n(echo \"" + marker + "\")\n")
	t0 := time.Now()
	s.flush()
	if s.dead {
		return Unknown
	}
	lines := s.readUntilMarker()
	s.Time += time.Since(t0)
	s.Queries++
	res := Unknown
	bad := false
	for _, l := range lines {
		switch {
		case l == "sat":
			res = Sat
		case l == "unsat":
			res = Unsat
		case l == "unknown" || l == "timeout":
			res = Unknown
			bad = true
		case strings.HasPrefix(l, "(error"):
			s.Errors = append(s.Errors, l)
			bad = true
		}
	}
	if bad {
		return Unknown
	}
	return res
}

// CheckAssuming checks the current context plus extra (in a temporary scope).
func (s *Solver) CheckWith(extra *Term) Result {
	if extra.IsConst() {
		if extra.Val == 0 {
			return Unsat
		}
		return s.Check()
	}
	s.Push()
	s.Assert(extra)
	r := s.Check()
	s.Pop()
	return r
}

var valRe = regexp.MustCompile(`\(\s*([^\s()]+)\s+(#x[0-9a-fA-F]+|#b[01]+|true|false)\s*\)`)

// Values fetches the model values of vars after a Sat answer. It must be
// called before the context changes.
func (s *Solver) Values(vars []*Term) (Model, bool) {
	m := Model{}
	var names []string
	for _, v := range vars {
		if s.isDefined(v.ID) {
			names = append(names, v.Name)
		}
	}
	if len(names) == 0 {
		return m, true
	}
	s.raw("(get-value (" + strings.Join(names, " ") + "))\n(echo \"" + marker + "\")\n")
	t0 := time.Now()
	s.flush()
	if s.dead {
		return m, false
	}
	lines := s.readUntilMarker()
	s.Time += time.Since(t0)
	txt := strings.Join(lines, " ")
	if strings.Contains(txt, "(error") {
		s.Errors = append(s.Errors, txt)
		return m, false
	}
	for _, g := range valRe.FindAllStringSubmatch(txt, -1) {
		var v uint64
		switch {
		case g[2] == "true":
			v = 1
		case g[2] == "false":
			v = 0
		case strings.HasPrefix(g[2], "#x"):
			v, _ = strconv.ParseUint(g[2][2:], 16, 64)
		default:
			v, _ = strconv.ParseUint(g[2][2:], 2, 64)
		}
		m[g[1]] = v
	}
	return m, true
}
