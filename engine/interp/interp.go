// Copyright 2013 The Go Authors. All rights reserved.
// Use of this source code is governed by a BSD-style
// license that can be found in the LICENSE file.
//
// Derived from golang.org/x/tools@v0.29.0/go/ssa/interp (interp.go); changed
// into a symbolic interpreter: one goroutine, symbolic scalars, forking by
// re-execution under a decision prefix, lazy shallow package initialisation,
// explicit channels and spawned-goroutine thunks driven by the harness.

package interp

import (
	"fmt"
	"go/token"
	"go/types"
	"runtime"
	"slices"
	"strings"
	"sync"

	"golang.org/x/tools/go/ssa"
)

type continuation int

const (
	kNext continuation = iota
	kReturn
	kJump
)

type thunk struct {
	fn   value
	args []value
	pos  token.Pos
	done bool
}

// State of one path execution.
type interpreter struct {
	prog               *ssa.Program
	globals            map[*ssa.Global]*value
	initDone           map[*ssa.Package]bool
	runtimeErrorString types.Type
	sizes              types.Sizes
	x                  *Explorer
	spawned            []*thunk
	effects            int   // stores, sends, map updates, spawns and stub calls so far
	onBlock            value // harness callback run while a receive would block
	inOnBlock          bool
	timers             []*vtimer
	depth              int
	side               map[string]value // engine side tables (per path)
	initNotes          []string
	unsafeData         map[*value][]value
	stack              []*ssa.Function
	panicStack         []string
}

type deferred struct {
	fn    value
	args  []value
	instr *ssa.Defer
	tail  *deferred
}

type frame struct {
	i                *interpreter
	caller           *frame
	fn               *ssa.Function
	block, prevBlock *ssa.BasicBlock
	env              []value // dynamic values of SSA variables, indexed by slot
	isset            []bool
	slots            map[ssa.Value]int
	locals           []value
	defers           *deferred
	result           value
	panicking        bool
	panic            interface{}
	phitemps         []value // temporaries for parallel phi assignment
}

func (fr *frame) set(key ssa.Value, v value) {
	idx := fr.slots[key]
	fr.env[idx] = v
	fr.isset[idx] = true
}

// awaitRecv gives the other actors a chance to run (the harness's OnBlock
// callback) while a receive would block; it returns when the channel is
// ready or the callback reports no progress.
func (i *interpreter) awaitRecv(fr *frame, x value) {
	ch, _ := x.(*vchan)
	if ch == nil || i.onBlock == nil {
		return
	}
	for k := 0; k < 64 && len(ch.buf) == 0 && !ch.closed && !i.inOnBlock; k++ {
		i.inOnBlock = true
		progress := call(i, fr, token.NoPos, i.onBlock, nil)
		i.inOnBlock = false
		if b, ok := progress.(bool); !ok || !b {
			return
		}
	}
}

func (fr *frame) get(key ssa.Value) value {
	switch key := key.(type) {
	case nil:
		return nil
	case *ssa.Function, *ssa.Builtin:
		return key
	case *ssa.Const:
		return constValue(key)
	case *ssa.Global:
		return fr.i.global(key)
	}
	if idx, ok := fr.slots[key]; ok {
		if r := fr.env[idx]; r != nil || fr.isset[idx] {
			return r
		}
	}
	panic(engineError(fmt.Sprintf("get: no value for %T: %v", key, key.Name())))
}

// global returns the address of a package-level variable, initialising its
// package lazily and shallowly on first access.
func (i *interpreter) global(g *ssa.Global) *value {
	if r, ok := i.globals[g]; ok {
		return r
	}
	pkg := g.Pkg
	for _, m := range pkg.Members {
		if v, ok := m.(*ssa.Global); ok {
			if _, have := i.globals[v]; !have {
				cell := zero(mustDeref(v.Type()))
				i.globals[v] = &cell
			}
		}
	}
	if !i.initDone[pkg] {
		i.initDone[pkg] = true
		if init := pkg.Func("init"); init != nil {
			func() {
				defer func() {
					if r := recover(); r != nil {
						switch r := r.(type) {
						case pathAbort, blockedPanic:
							panic(r)
						default:
							i.initNotes = append(i.initNotes, fmt.Sprintf("partial init of %s: %v", pkg.Pkg.Path(), r))
						}
					}
				}()
				call(i, nil, token.NoPos, init, nil)
			}()
		}
	}
	return i.globals[g]
}

// runDefer runs a deferred call d.
// It always returns normally, but may set or clear fr.panic.
func (fr *frame) runDefer(d *deferred) {
	var ok bool
	defer func() {
		if !ok {
			// Deferred call created a new state of panic.
			r := recover()
			if isEngineUnwind(r) {
				panic(r)
			}
			fr.panicking = true
			fr.panic = r
		}
	}()
	call(fr.i, fr, d.instr.Pos(), d.fn, d.args)
	ok = true
}

func (fr *frame) runDefers() {
	for d := fr.defers; d != nil; d = d.tail {
		fr.runDefer(d)
	}
	fr.defers = nil
	if fr.panicking {
		panic(fr.panic) // new panic, or still panicking
	}
}

// isEngineUnwind reports panics that must not be visible to target code.
func isEngineUnwind(r interface{}) bool {
	switch r.(type) {
	case pathAbort, blockedPanic, engineError:
		return true
	}
	return false
}

func lookupMethod(i *interpreter, typ types.Type, meth *types.Func) *ssa.Function {
	return i.prog.LookupMethod(typ, meth.Pkg(), meth.Name())
}

// visitInstr interprets a single ssa.Instruction within the activation
// record frame.
func visitInstr(fr *frame, instr ssa.Instruction) continuation {
	switch instr := instr.(type) {
	case *ssa.DebugRef:
		// no-op

	case *ssa.UnOp:
		if instr.Op == token.ARROW {
			fr.i.awaitRecv(fr, fr.get(instr.X))
		}
		fr.set(instr, unop(instr, fr.get(instr.X)))

	case *ssa.BinOp:
		fr.set(instr, binop(instr.Op, instr.X.Type(), fr.get(instr.X), fr.get(instr.Y)))

	case *ssa.Call:
		fn, args := prepareCall(fr, &instr.Call)
		fr.set(instr, call(fr.i, fr, instr.Pos(), fn, args))

	case *ssa.ChangeInterface:
		fr.set(instr, fr.get(instr.X))

	case *ssa.ChangeType:
		fr.set(instr, fr.get(instr.X)) // (can not fail)

	case *ssa.Convert:
		fr.set(instr, conv(instr.Type(), instr.X.Type(), fr.get(instr.X)))

	case *ssa.SliceToArrayPointer:
		fr.set(instr, sliceToArrayPointer(instr.Type(), instr.X.Type(), fr.get(instr.X)))

	case *ssa.MakeInterface:
		fr.set(instr, iface{t: instr.X.Type(), v: fr.get(instr.X)})

	case *ssa.Extract:
		fr.set(instr, fr.get(instr.Tuple).(tuple)[instr.Index])

	case *ssa.Slice:
		fr.set(instr, slice(fr.get(instr.X), fr.get(instr.Low), fr.get(instr.High), fr.get(instr.Max)))

	case *ssa.Return:
		switch len(instr.Results) {
		case 0:
		case 1:
			fr.result = fr.get(instr.Results[0])
		default:
			var res []value
			for _, r := range instr.Results {
				res = append(res, fr.get(r))
			}
			fr.result = tuple(res)
		}
		fr.block = nil
		return kReturn

	case *ssa.RunDefers:
		fr.runDefers()

	case *ssa.Panic:
		panic(targetPanic{fr.get(instr.X)})

	case *ssa.Send:
		fr.i.effects++
		fr.get(instr.Chan).(*vchan).send(fr.get(instr.X))

	case *ssa.Store:
		fr.i.effects++
		store(mustDeref(instr.Addr.Type()), fr.get(instr.Addr).(*value), fr.get(instr.Val))

	case *ssa.If:
		succ := 1
		if truth(fr.get(instr.Cond)) {
			succ = 0
		}
		fr.prevBlock, fr.block = fr.block, fr.block.Succs[succ]
		return kJump

	case *ssa.Jump:
		fr.prevBlock, fr.block = fr.block, fr.block.Succs[0]
		return kJump

	case *ssa.Defer:
		fn, args := prepareCall(fr, &instr.Call)
		defers := &fr.defers
		if into := fr.get(instr.DeferStack); into != nil {
			defers = into.(**deferred)
		}
		*defers = &deferred{
			fn:    fn,
			args:  args,
			instr: instr,
			tail:  *defers,
		}

	case *ssa.Go:
		fr.i.effects++
		fn, args := prepareCall(fr, &instr.Call)
		fr.i.spawned = append(fr.i.spawned, &thunk{fn: fn, args: args, pos: instr.Pos()})

	case *ssa.MakeChan:
		fr.set(instr, &vchan{cap: int(concreteInt(fr.get(instr.Size), "chan size"))})

	case *ssa.Alloc:
		var addr *value
		if instr.Heap {
			// new
			addr = new(value)
			fr.set(instr, addr)
		} else {
			// local
			addr = fr.env[fr.slots[instr]].(*value)
		}
		*addr = zero(mustDeref(instr.Type()))

	case *ssa.MakeSlice:
		c := concreteInt(fr.get(instr.Cap), "make cap")
		l := concreteInt(fr.get(instr.Len), "make len")
		if l < 0 || c < l || c > 1<<24 {
			panic(runtimePanic("makeslice: len out of range"))
		}
		slice := make([]value, c)
		tElt := instr.Type().Underlying().(*types.Slice).Elem()
		for i := range slice {
			slice[i] = zero(tElt)
		}
		fr.set(instr, slice[:l])

	case *ssa.MakeMap:
		fr.set(instr, makeMap(instr.Type().Underlying().(*types.Map).Key(), 0))

	case *ssa.Range:
		fr.set(instr, rangeIter(fr, fr.get(instr.X), instr.X.Type()))

	case *ssa.Next:
		fr.set(instr, fr.get(instr.Iter).(iter).next())

	case *ssa.FieldAddr:
		fr.set(instr, &(*fr.get(instr.X).(*value)).(structure)[instr.Field])

	case *ssa.Field:
		fr.set(instr, fr.get(instr.X).(structure)[instr.Field])

	case *ssa.IndexAddr:
		x := fr.get(instr.X)
		idx := fr.get(instr.Index)
		var elems []value
		switch x := x.(type) {
		case []value:
			elems = x
		case *value: // *array
			elems = (*x).(array)
		default:
			panic(fmt.Sprintf("unexpected x type in IndexAddr: %T", x))
		}
		if s, ok := idx.(symInt); ok {
			// bounds decision, then enumerate the feasible positions
			ex := s.x
			c := ex.ctx
			n := uint64(len(elems))
			var inb = c.Cmp("bvult", s.t, c.BV(n, s.t.W))
			if !ex.decide(inb) {
				panic(runtimePanic("index out of range (symbolic index)"))
			}
			fr.set(instr, &elems[ex.concretize(s, "element address index")])
		} else {
			fr.set(instr, &elems[asInt64(idx)])
		}

	case *ssa.Index:
		x := fr.get(instr.X)
		idx := fr.get(instr.Index)
		if s, ok := idx.(symInt); ok {
			switch x := x.(type) {
			case array:
				fr.set(instr, indexSym(s.x, x, s))
			case string:
				fr.set(instr, indexSym(s.x, strBytes(x), s))
			case *sstr:
				fr.set(instr, indexSym(s.x, x.b, s))
			default:
				panic(fmt.Sprintf("unexpected x type in Index: %T", x))
			}
			break
		}
		switch x := x.(type) {
		case array:
			fr.set(instr, x[asInt64(idx)])
		case string:
			fr.set(instr, x[asInt64(idx)])
		case *sstr:
			fr.set(instr, x.b[asInt64(idx)])
		default:
			panic(fmt.Sprintf("unexpected x type in Index: %T", x))
		}

	case *ssa.Lookup:
		x := fr.get(instr.X)
		if isStr(x) { // string index via Lookup
			idx := fr.get(instr.Index)
			if s, ok := idx.(symInt); ok {
				fr.set(instr, indexSym(s.x, strBytes(x), s))
			} else {
				fr.set(instr, strBytes(x)[asInt64(idx)])
			}
			break
		}
		fr.set(instr, lookup(instr, x, fr.get(instr.Index)))

	case *ssa.MapUpdate:
		fr.i.effects++
		m := fr.get(instr.Map)
		key := fr.get(instr.Key)
		v := fr.get(instr.Value)
		m.(*omap).insert(key, copyVal(v))

	case *ssa.TypeAssert:
		fr.set(instr, typeAssert(fr.i, instr, fr.get(instr.X).(iface)))

	case *ssa.MakeClosure:
		var bindings []value
		for _, binding := range instr.Bindings {
			bindings = append(bindings, fr.get(binding))
		}
		fr.set(instr, &closure{instr.Fn.(*ssa.Function), bindings})

	case *ssa.Phi:
		panic(engineError("unreachable phi")) // phis are processed at block entry

	case *ssa.Select:
		chosen := -1
		var recv value
		recvOk := false
		try := func() {
			for i, st := range instr.States {
				ch := fr.get(st.Chan).(*vchan)
				if st.Dir == types.RecvOnly {
					v, ok, ready := ch.recv()
					if ready {
						chosen, recv, recvOk = i, v, ok
						break
					}
				} else {
					if ch != nil && ch.closed {
						panic(targetPanic{iface{t: types.Typ[types.String], v: "send on closed channel"}})
					}
					if ch != nil && len(ch.buf) < ch.cap {
						ch.buf = append(ch.buf, fr.get(st.Send))
						chosen = i
						break
					}
				}
			}
		}
		try()
		if chosen < 0 && instr.Blocking {
			// let the other actors run while this select would block
			for k := 0; k < 64 && chosen < 0 && fr.i.onBlock != nil && !fr.i.inOnBlock; k++ {
				fr.i.inOnBlock = true
				progress := call(fr.i, fr, token.NoPos, fr.i.onBlock, nil)
				fr.i.inOnBlock = false
				try()
				if b, ok := progress.(bool); !ok || !b {
					break
				}
			}
		}
		if chosen < 0 && instr.Blocking {
			// nothing else can happen: a time.After case fires
			for i, st := range instr.States {
				ch := fr.get(st.Chan).(*vchan)
				if st.Dir == types.RecvOnly && ch != nil && fr.i.side[fmt.Sprintf("after:%p", ch)] != nil {
					n, _ := fr.i.side["timeouts-fired"].(int)
					fr.i.side["timeouts-fired"] = n + 1
					chosen, recv, recvOk = i, zero(st.Chan.Type().Underlying().(*types.Chan).Elem()), true
					break
				}
			}
		}
		if chosen < 0 && instr.Blocking {
			panic(blockedPanic{"select with no ready case"})
		}
		r := tuple{chosen, recvOk}
		for i, st := range instr.States {
			if st.Dir == types.RecvOnly {
				var v value
				if i == chosen && recvOk {
					v = recv
				} else {
					v = zero(st.Chan.Type().Underlying().(*types.Chan).Elem())
				}
				r = append(r, v)
			}
		}
		fr.set(instr, r)

	default:
		panic(engineError(fmt.Sprintf("unexpected instruction: %T", instr)))
	}

	return kNext
}

// prepareCall determines the function value and argument values for a
// function call in a Call, Go or Defer instruction, performing
// interface method lookup if needed.
func prepareCall(fr *frame, call *ssa.CallCommon) (fn value, args []value) {
	v := fr.get(call.Value)
	if call.Method == nil {
		// Function call.
		fn = v
	} else {
		// Interface method invocation.
		recv := v.(iface)
		if recv.t == nil {
			panic(runtimePanic("invalid memory address or nil pointer dereference (method invoked on nil interface)"))
		}
		if f := lookupMethod(fr.i, recv.t, call.Method); f == nil {
			// Unreachable in well-typed programs.
			panic(engineError(fmt.Sprintf("method set for dynamic type %v does not contain %s", recv.t, call.Method)))
		} else {
			fn = f
		}
		args = append(args, recv.v)
	}
	for _, arg := range call.Args {
		args = append(args, fr.get(arg))
	}
	return
}

// call interprets a call to a function (function, builtin or closure)
// fn with arguments args, returning its result.
func call(i *interpreter, caller *frame, callpos token.Pos, fn value, args []value) value {
	switch fn := fn.(type) {
	case *ssa.Function:
		if fn == nil {
			panic(runtimePanic("invalid memory address or nil pointer dereference (call of nil function)"))
		}
		return callSSA(i, caller, callpos, fn, args, nil)
	case *closure:
		return callSSA(i, caller, callpos, fn.Fn, args, fn.Env)
	case *ssa.Builtin:
		return callBuiltin(caller, callpos, fn, args)
	}
	panic(engineError(fmt.Sprintf("cannot call %T", fn)))
}

func loc(fset *token.FileSet, pos token.Pos) string {
	if pos == token.NoPos {
		return ""
	}
	return " at " + fset.Position(pos).String()
}

// callSSA interprets a call to function fn with arguments args,
// and lexical environment env, returning its result.
func callSSA(i *interpreter, caller *frame, callpos token.Pos, fn *ssa.Function, args []value, env []value) value {
	fr := &frame{
		i:      i,
		caller: caller, // for panic/recover
		fn:     fn,
	}
	info := fnInfoOf(fn)
	if fn.Parent() == nil {
		name := info.name
		if ext := info.ext; ext != nil {
			i.x.Stats.Stubs[name]++
			if name != "(*sync.WaitGroup).Wait" {
				i.effects++
			}
			return ext(fr, args)
		}
		if fn.Synthetic == "package initializer" && caller != nil && caller.fn.Synthetic == "package initializer" {
			// shallow initialisation: dependencies are initialised on demand
			return nil
		}
		if fn.Blocks == nil {
			panic(engineError("no code for function: " + name))
		}
	}

	// generic function body?
	if fn.TypeParams().Len() > 0 && len(fn.TypeArgs()) == 0 {
		panic(engineError("generic function without instantiation: " + fn.String()))
	}
	i.depth++
	if i.depth > 400 {
		panic(pathAbort{EndInconclusive, "call depth budget exceeded in " + fn.String()})
	}
	i.stack = append(i.stack, fn)
	defer func() {
		if r := recover(); r != nil {
			if i.panicStack == nil {
				for k := len(i.stack) - 1; k >= 0 && len(i.panicStack) < 12; k-- {
					i.panicStack = append(i.panicStack, i.stack[k].String())
				}
			}
			i.stack = i.stack[:len(i.stack)-1]
			i.depth--
			panic(r)
		}
		i.stack = i.stack[:len(i.stack)-1]
		i.depth--
	}()
	if info.repo {
		i.x.Stats.Funcs[info.name]++
	}

	fr.slots = info.slotMap(fn)
	fr.env = make([]value, len(fr.slots))
	fr.isset = make([]bool, len(fr.slots))
	fr.block = fn.Blocks[0]
	fr.locals = make([]value, len(fn.Locals))
	for i, l := range fn.Locals {
		fr.locals[i] = zero(mustDeref(l.Type()))
		fr.set(l, &fr.locals[i])
	}
	for i, p := range fn.Params {
		fr.set(p, args[i])
	}
	for i, fv := range fn.FreeVars {
		fr.set(fv, env[i])
	}
	for fr.block != nil {
		runFrame(fr)
	}
	// Destroy the locals to avoid accidental use after return.
	for i := range fn.Locals {
		fr.locals[i] = bad{}
	}
	return fr.result
}

// runFrame executes SSA instructions starting at fr.block and
// continuing until a return, a panic, or a recovered panic.
func runFrame(fr *frame) {
	defer func() {
		if fr.block == nil {
			return // normal return
		}
		r := recover()
		if isEngineUnwind(r) {
			panic(r)
		}
		fr.panicking = true
		fr.panic = r
		fr.runDefers()
		fr.block = fr.fn.Recover
	}()

	x := fr.i.x
	for {
		nonPhis := executePhis(fr)
		x.instrs += int64(len(nonPhis))
		if x.instrs > x.MaxInstrs {
			panic(pathAbort{EndInconclusive, "instruction budget exceeded"})
		}
		for _, instr := range nonPhis {
			if visitInstr(fr, instr) == kReturn {
				return
			}
			// Inv: kNext (continue) or kJump (last instr)
		}
	}
}

// executePhis executes the phi-nodes at the start of the current
// block and returns the non-phi instructions.
func executePhis(fr *frame) []ssa.Instruction {
	firstNonPhi := -1
	for i, instr := range fr.block.Instrs {
		if _, ok := instr.(*ssa.Phi); !ok {
			firstNonPhi = i
			break
		}
	}
	// Inv: 0 <= firstNonPhi; every block contains a non-phi.

	nonPhis := fr.block.Instrs[firstNonPhi:]
	if firstNonPhi > 0 {
		phis := fr.block.Instrs[:firstNonPhi]
		predIndex := slices.Index(fr.block.Preds, fr.prevBlock)
		fr.phitemps = fr.phitemps[:0]
		for _, phi := range phis {
			phi := phi.(*ssa.Phi)
			fr.phitemps = append(fr.phitemps, fr.get(phi.Edges[predIndex]))
		}
		for i, phi := range phis {
			fr.set(phi.(*ssa.Phi), fr.phitemps[i])
		}
	}
	return nonPhis
}

// doRecover implements the recover() built-in.
func doRecover(caller *frame) value {
	// recover() must be exactly one level beneath the deferred
	// function (two levels beneath the panicking function) to
	// have any effect.
	if caller != nil && !caller.panicking &&
		caller.caller != nil && caller.caller.panicking {
		caller.caller.panicking = false
		p := caller.caller.panic
		caller.caller.panic = nil

		switch p := p.(type) {
		case targetPanic:
			// The target program explicitly called panic().
			return p.v
		case runtime.Error:
			// The interpreter encountered a runtime error.
			return iface{caller.i.runtimeErrorString, p.Error()}
		case runtimePanic:
			return iface{caller.i.runtimeErrorString, p.Error()}
		case string:
			// The interpreter explicitly called panic().
			return iface{caller.i.runtimeErrorString, p}
		default:
			panic(engineError(fmt.Sprintf("unexpected panic type %T in target call to recover()", p)))
		}
	}
	return iface{}
}

type fnInfo struct {
	name  string
	ext   externalFn
	repo  bool
	once  sync.Once
	slots map[ssa.Value]int
}

// slotMap numbers every SSA value of fn (parameters, free variables, locals
// and value-producing instructions) once; frames index a slice with it.
func (info *fnInfo) slotMap(fn *ssa.Function) map[ssa.Value]int {
	info.once.Do(func() {
		m := map[ssa.Value]int{}
		add := func(v ssa.Value) {
			if _, ok := m[v]; !ok {
				m[v] = len(m)
			}
		}
		for _, p := range fn.Params {
			add(p)
		}
		for _, fv := range fn.FreeVars {
			add(fv)
		}
		for _, l := range fn.Locals {
			add(l)
		}
		for _, b := range fn.Blocks {
			for _, ins := range b.Instrs {
				if v, ok := ins.(ssa.Value); ok {
					add(v)
				}
			}
		}
		info.slots = m
	})
	return info.slots
}

var fnInfos sync.Map // *ssa.Function -> *fnInfo

func fnInfoOf(fn *ssa.Function) *fnInfo {
	if v, ok := fnInfos.Load(fn); ok {
		return v.(*fnInfo)
	}
	info := &fnInfo{name: fn.String()}
	if fn.Parent() == nil {
		info.ext = externals[info.name]
	}
	info.repo = fn.Pkg != nil && strings.HasPrefix(fn.Pkg.Pkg.Path(), "github.com/resgateio/resgate")
	fnInfos.Store(fn, info)
	return info
}

func newInterpreter(prog *ssa.Program, x *Explorer) *interpreter {
	i := &interpreter{
		prog:       prog,
		globals:    make(map[*ssa.Global]*value),
		initDone:   make(map[*ssa.Package]bool),
		sizes:      &types.StdSizes{WordSize: 8, MaxAlign: 8},
		x:          x,
		side:       map[string]value{},
		unsafeData: map[*value][]value{},
	}
	if runtimePkg := prog.ImportedPackage("runtime"); runtimePkg != nil {
		if t := runtimePkg.Type("errorString"); t != nil {
			i.runtimeErrorString = t.Object().Type()
		}
	}
	if i.runtimeErrorString == nil {
		i.runtimeErrorString = types.Typ[types.String]
	}
	return i
}
