package interp

// Explorer: path exploration by re-execution under a decision prefix.
//
// A path is identified by the sequence of decisions taken at symbolic
// branches, n-way choices and concretisations. Alternatives that the solver
// reports feasible are kept on the trail; after a path ends the deepest
// decision with a remaining alternative is flipped and the harness is
// re-executed from the start under the longer prefix (DFS).

import (
	"fmt"
	"sort"
	"strings"

	"vf/smt"
)

type decision struct {
	val  int64   // value taken on the current path
	alts []int64 // remaining alternatives (already known feasible or unchecked choices)
	kind byte    // 'b' branch, 'c' choose, 'v' concretise
}

// PathEnd classifies how a path finished.
type PathEnd int

const (
	EndOK           PathEnd = iota
	EndPruned               // assumption infeasible
	EndViolation            // assertion failed / unexpected panic (replay needed)
	EndInconclusive         // engine limitation, budget, solver unknown
	EndBlocked              // blocked forever on channel/mutex
	EndSplit                // enumerator reached the split depth
)

type Input struct {
	Name string
	Term *smt.Term
	W    int
}

type Violation struct {
	Harness   string
	AssertID  string
	Kind      string // "assert", "panic", "deadlock"
	Msg       string
	Tags      []string
	Decisions []int64
	Inputs    []InputVal
	Choices   []int64
	Notes     []string
	Params    map[string]int
	Known     bool
}

type InputVal struct {
	Name string `json:"name"`
	Val  uint64 `json:"val"`
	W    int    `json:"w"`
}

type Stats struct {
	Paths        int
	PathsNonTriv int
	Pruned       int
	Obligations  int
	Discharged   int
	Folded       int // assertions that folded to constant true
	Inconclusive []string
	Instrs       int64
	MaxDepth     int
	Reached      map[string]int
	Funcs        map[string]int
	Stubs        map[string]int
	Samples      []PathSample
	Assumptions  map[string]bool
}

type PathSample struct {
	Decisions string   `json:"decisions"`
	Inputs    []string `json:"inputs,omitempty"`
	Asserts   []string `json:"asserts,omitempty"`
	Tags      []string `json:"tags,omitempty"`
	End       string   `json:"end"`
}

type Explorer struct {
	// IsKnown classifies a violation as a listed known finding (set by the runner)
	IsKnown        func(*Violation) bool
	continueKnown  bool
	KnownContinued int
	knownSeen      map[string]int
	ctx    *smt.Ctx
	solver *smt.Solver

	trail []decision
	pos   int

	model      smt.Model
	modelValid bool
	unknownHit bool // a solver "unknown" was treated as feasible on this path

	inputs   []Input
	choices  []int64
	tags     []string
	notes    []string
	asserts  []string
	symbolic bool // path touched at least one symbolic decision/assertion
	inputSeq int

	Stats      Stats
	Violations []Violation
	Params     map[string]int
	Harness    string

	MaxPaths  int
	MaxInstrs int64
	MaxDepth  int
	instrs    int64

	expectPanic string
	mapReverse  bool

	// parallel split: an enumerating explorer stops at decision depth
	// splitDepth and records the prefixes; a worker explorer explores only
	// below its fixed prefix (base decisions).
	splitDepth int
	Prefixes   [][]int64
	base       int
}

// SetSplit makes this explorer an enumerator of decision prefixes.
func (x *Explorer) SetSplit(depth int) { x.splitDepth = depth }

// SetPrefix restricts this explorer to the paths below a decision prefix.
func (x *Explorer) SetPrefix(p []int64) {
	x.trail = x.trail[:0]
	for _, v := range p {
		x.trail = append(x.trail, decision{val: v, kind: 'p'})
	}
	x.base = len(p)
}

func (x *Explorer) frontier() {
	if x.splitDepth > 0 && len(x.trail) >= x.splitDepth {
		p := make([]int64, len(x.trail))
		for i, d := range x.trail {
			p[i] = d.val
		}
		x.Prefixes = append(x.Prefixes, p)
		panic(pathAbort{EndSplit, "handed to a worker"})
	}
}

func NewExplorer(solverKind string, timeoutMs int) (*Explorer, error) {
	s, err := smt.NewSolver(solverKind, timeoutMs)
	if err != nil {
		return nil, err
	}
	return NewExplorerOn(s), nil
}

// NewExplorerOn creates an explorer on an existing (idle, level 0) solver
// process, so that workers can reuse one process for many tasks.
func NewExplorerOn(s *smt.Solver) *Explorer {
	s.Queries = 0
	s.Time = 0
	s.Errors = nil
	x := &Explorer{ctx: smt.NewCtx(), solver: s}
	x.Stats.Reached = map[string]int{}
	x.Stats.Funcs = map[string]int{}
	x.Stats.Stubs = map[string]int{}
	x.Stats.Assumptions = map[string]bool{}
	x.MaxPaths = 200000
	x.MaxInstrs = 20000000
	x.MaxDepth = 4000
	return x
}

func (x *Explorer) Close()              { x.solver.Close() }
func (x *Explorer) Solver() *smt.Solver { return x.solver }

// pathAbort unwinds the interpreter when a path ends early.
type pathAbort struct {
	end PathEnd
	msg string
}

func (x *Explorer) beginPath() {
	x.pos = 0
	x.modelValid = false
	x.unknownHit = false
	x.inputs = x.inputs[:0]
	x.choices = x.choices[:0]
	x.tags = nil
	x.notes = nil
	x.asserts = nil
	x.symbolic = false
	x.inputSeq = 0
	x.instrs = 0
	x.expectPanic = ""
	x.mapReverse = false
	x.continueKnown = false
	x.solver.Push()
}

func (x *Explorer) endPath() {
	x.solver.Pop()
}

// backtrack prepares the trail for the next path; false when exhausted.
func (x *Explorer) backtrack() bool {
	// drop decisions beyond what the last run consumed (cannot happen) and
	// those without alternatives
	if x.pos < x.base {
		// the path ended inside the fixed prefix (cannot happen for a
		// prefix produced by the enumerator)
		return false
	}
	x.trail = x.trail[:x.pos]
	for len(x.trail) > x.base {
		d := &x.trail[len(x.trail)-1]
		if len(d.alts) > 0 {
			d.val = d.alts[0]
			d.alts = d.alts[1:]
			return true
		}
		x.trail = x.trail[:len(x.trail)-1]
	}
	return false
}

func (x *Explorer) ensureModel() bool {
	if x.modelValid {
		return true
	}
	r := x.solver.Check()
	switch r {
	case smt.Sat:
		m, ok := x.solver.Values(x.ctx.Vars)
		if !ok {
			return false
		}
		x.model = m
		x.modelValid = true
		return true
	case smt.Unsat:
		panic(pathAbort{EndPruned, "path condition unsatisfiable"})
	}
	return false
}

func (x *Explorer) assertPC(t *smt.Term) {
	x.solver.Assert(t)
}

// decide returns a concrete truth value for cond on this path.
func (x *Explorer) decide(cond *smt.Term) bool {
	if cond.IsConst() {
		return cond.Val == 1
	}
	x.symbolic = true
	c := x.ctx
	if x.pos < len(x.trail) {
		d := x.trail[x.pos]
		x.pos++
		if d.val == 1 {
			x.assertPC(cond)
		} else {
			x.assertPC(c.Not(cond))
		}
		x.modelValid = false
		return d.val == 1
	}
	if len(x.trail) >= x.MaxDepth {
		panic(pathAbort{EndInconclusive, "decision depth budget exceeded"})
	}
	x.frontier()
	var side bool
	haveModel := x.ensureModel()
	if haveModel {
		side = cond.Eval(x.model) == 1
	} else {
		// solver unknown on the path condition: probe the true side
		r := x.solver.CheckWith(cond)
		side = r != smt.Unsat
		x.unknownHit = true
	}
	other := c.Not(cond)
	if !side {
		other = cond
	}
	d := decision{kind: 'b'}
	if side {
		d.val = 1
	}
	switch x.solver.CheckWith(other) {
	case smt.Sat:
		d.alts = []int64{1 - d.val}
	case smt.Unknown:
		d.alts = []int64{1 - d.val}
		x.noteInconclusive("solver unknown at branch (treated as feasible)")
	}
	x.trail = append(x.trail, d)
	x.pos++
	if side {
		x.assertPC(cond)
	} else {
		x.assertPC(c.Not(cond))
	}
	return side
}

// choose is an n-way nondeterministic choice (no solver involved).
func (x *Explorer) choose(n int) int {
	if n <= 0 {
		panic(engineError("choose: n<=0"))
	}
	if n == 1 {
		x.choices = append(x.choices, 0)
		return 0
	}
	x.symbolic = true
	if x.pos < len(x.trail) {
		d := x.trail[x.pos]
		x.pos++
		x.choices = append(x.choices, d.val)
		return int(d.val)
	}
	if len(x.trail) >= x.MaxDepth {
		panic(pathAbort{EndInconclusive, "decision depth budget exceeded"})
	}
	x.frontier()
	d := decision{kind: 'c', val: 0}
	for i := 1; i < n; i++ {
		d.alts = append(d.alts, int64(i))
	}
	x.trail = append(x.trail, d)
	x.pos++
	x.choices = append(x.choices, 0)
	return 0
}

// concretize enumerates the feasible values of a symbolic integer.
func (x *Explorer) concretize(s symInt, what string) int64 {
	x.symbolic = true
	c := x.ctx
	conv := func(u uint64) int64 {
		return asInt64(wrapInt(x, c.BV(u, s.t.W), s.k))
	}
	if x.pos < len(x.trail) {
		d := x.trail[x.pos]
		x.pos++
		x.assertPC(c.Eq(s.t, c.BV(uint64(d.val), s.t.W)))
		x.modelValid = false
		return d.val
	}
	x.frontier()
	const limit = 40
	var vals []int64
	x.solver.Push()
	n := 0
	for {
		r := x.solver.Check()
		if r == smt.Unsat {
			break
		}
		if r == smt.Unknown {
			x.solver.Pop()
			panic(pathAbort{EndInconclusive, "solver unknown while concretising " + what})
		}
		m, ok := x.solver.Values(x.ctx.Vars)
		if !ok {
			x.solver.Pop()
			panic(pathAbort{EndInconclusive, "no model while concretising " + what})
		}
		u := s.t.Eval(m)
		vals = append(vals, conv(u))
		x.solver.Assert(c.Not(c.Eq(s.t, c.BV(u, s.t.W))))
		n++
		if n > limit {
			x.solver.Pop()
			panic(pathAbort{EndInconclusive, fmt.Sprintf("more than %d feasible values while concretising %s", limit, what)})
		}
	}
	x.solver.Pop()
	if len(vals) == 0 {
		panic(pathAbort{EndPruned, "path condition unsatisfiable"})
	}
	sort.Slice(vals, func(i, j int) bool { return vals[i] < vals[j] })
	d := decision{kind: 'v', val: vals[0], alts: vals[1:]}
	x.trail = append(x.trail, d)
	x.pos++
	x.assertPC(c.Eq(s.t, c.BV(uint64(d.val), s.t.W)))
	x.modelValid = false
	return d.val
}

func (x *Explorer) noteInconclusive(msg string) {
	for _, m := range x.Stats.Inconclusive {
		if m == msg {
			return
		}
	}
	if len(x.Stats.Inconclusive) < 50 {
		x.Stats.Inconclusive = append(x.Stats.Inconclusive, msg)
	}
}

// ---- inputs

func sanitize(s string) string {
	var sb strings.Builder
	for _, r := range s {
		if (r >= 'a' && r <= 'z') || (r >= 'A' && r <= 'Z') || (r >= '0' && r <= '9') || r == '_' {
			sb.WriteRune(r)
		} else {
			sb.WriteByte('_')
		}
	}
	return sb.String()
}

func (x *Explorer) newInput(name string, w int) *smt.Term {
	vn := fmt.Sprintf("i%d_%s", x.inputSeq, sanitize(name))
	x.inputSeq++
	t := x.ctx.Var(vn, w)
	x.inputs = append(x.inputs, Input{Name: vn, Term: t, W: w})
	return t
}

// ---- assertions

func (x *Explorer) assume(v value) {
	switch v := v.(type) {
	case bool:
		if !v {
			panic(pathAbort{EndPruned, "assume(false)"})
		}
	case symBool:
		x.symbolic = true
		x.assertPC(v.t)
		if x.modelValid && v.t.Eval(x.model) == 1 {
			return
		}
		x.modelValid = false
		switch x.solver.Check() {
		case smt.Unsat:
			panic(pathAbort{EndPruned, "assumption infeasible"})
		case smt.Unknown:
			x.unknownHit = true
			x.noteInconclusive("solver unknown at assume")
		}
	default:
		panic(engineError("assume: not a bool"))
	}
}

func (x *Explorer) currentDecisions() []int64 {
	ds := make([]int64, x.pos)
	for i := 0; i < x.pos; i++ {
		ds[i] = x.trail[i].val
	}
	return ds
}

func (x *Explorer) snapshotInputs(m smt.Model) []InputVal {
	out := make([]InputVal, len(x.inputs))
	for i, in := range x.inputs {
		out[i] = InputVal{Name: in.Name, Val: m[in.Name], W: in.W}
	}
	return out
}

func (x *Explorer) recordViolation(kind, id, msg string, m smt.Model) {
	v := Violation{
		Harness: x.Harness, AssertID: id, Kind: kind, Msg: msg,
		Tags:      append([]string(nil), x.tags...),
		Decisions: x.currentDecisions(),
		Inputs:    x.snapshotInputs(m),
		Choices:   append([]int64(nil), x.choices...),
		Notes:     append([]string(nil), x.notes...),
		Params:    x.Params,
	}
	x.Violations = append(x.Violations, v)
}

func (x *Explorer) assert(v value, id string) {
	x.Stats.Obligations++
	x.Stats.Reached["assert:"+id]++
	switch v := v.(type) {
	case bool:
		if v {
			x.Stats.Discharged++
			x.Stats.Folded++
			x.asserts = append(x.asserts, id+":const-true")
			return
		}
		// concrete failure on a feasible path: fetch a model for replay
		x.modelValid = false
		if !x.ensureModel() {
			x.noteInconclusive("solver unknown while confirming violation of " + id)
			panic(pathAbort{EndInconclusive, "unknown at violation"})
		}
		x.asserts = append(x.asserts, id+":VIOLATED")
		x.recordViolation("assert", id, "assertion is false on this path", x.model)
		if x.continueKnown && x.IsKnown != nil {
			// a harness that resynchronises its model after a listed known
			// finding goes on, so that a different violation further down
			// the same history is still found
			v := &x.Violations[len(x.Violations)-1]
			if x.IsKnown(v) {
				v.Known = true
				x.KnownContinued++
				if x.knownSeen == nil {
					x.knownSeen = map[string]int{}
				}
				key := v.AssertID + "|" + strings.Join(v.Tags, ",")
				x.knownSeen[key]++
				if x.knownSeen[key] > 2 {
					x.Violations = x.Violations[:len(x.Violations)-1]
				}
				return
			}
		}
		panic(pathAbort{EndViolation, id})
	case symBool:
		x.symbolic = true
		c := x.ctx
		x.solver.Push()
		x.solver.Assert(c.Not(v.t))
		r := x.solver.Check()
		switch r {
		case smt.Unsat:
			x.solver.Pop()
			x.Stats.Discharged++
			x.asserts = append(x.asserts, id+":unsat")
			// continue under the assertion
			x.assertPC(v.t)
			return
		case smt.Sat:
			m, ok := x.solver.Values(x.ctx.Vars)
			x.solver.Pop()
			if !ok {
				x.noteInconclusive("no model for violation of " + id)
				panic(pathAbort{EndInconclusive, "no model"})
			}
			x.asserts = append(x.asserts, id+":VIOLATED")
			x.recordViolation("assert", id, "solver found inputs falsifying the assertion", m)
			panic(pathAbort{EndViolation, id})
		default:
			x.solver.Pop()
			x.noteInconclusive("solver unknown on assertion " + id)
			x.asserts = append(x.asserts, id+":unknown")
			x.assertPC(v.t)
		}
	default:
		panic(engineError("assert: not a bool"))
	}
}
