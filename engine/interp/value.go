// Copyright 2013 The Go Authors. All rights reserved.
// Use of this source code is governed by a BSD-style
// license that can be found in the LICENSE file.
//
// Derived from golang.org/x/tools@v0.29.0/go/ssa/interp (value.go); changed
// for symbolic execution: symbolic scalars, deterministic insertion-ordered
// maps, explicit channel buffers.

package interp

// Values
//
// All interpreter values are "boxed" in the empty interface, value.
// The range of possible dynamic types within value are:
//
// - bool, symBool
// - numbers (all built-in int/float/complex types are distinguished), symInt
// - string, *sstr (string with symbolic bytes)
// - *omap --- maps (insertion ordered)
// - *vchan --- channels
// - []value --- slices
// - iface --- interfaces.
// - structure --- structs.  Fields are ordered and accessed by numeric indices.
// - array --- arrays.
// - *value --- pointers.  Careful: *value is a distinct type from *array etc.
// - *ssa.Function \
//   *ssa.Builtin   } --- functions.  A nil 'func' is always of type *ssa.Function.
//   *closure      /
// - tuple --- as returned by Return, Next, "value,ok" modes, etc.
// - iter --- iterators from 'range' over map or string.
// - bad --- a poison pill for locals that have gone out of scope.
// - rtype -- the interpreter's concrete implementation of reflect.Type
// - **deferred -- the address of a frame's defer stack for a Defer._Stack.

import (
	"bytes"
	"fmt"
	"go/types"
	"io"
	"strings"
	"unsafe"

	"golang.org/x/tools/go/ssa"
)

type value interface{}

type tuple []value

type array []value

type iface struct {
	t types.Type // never an "untyped" type
	v value
}

type structure []value

// For map, array, *array, slice, string or channel.
type iter interface {
	// next returns a Tuple (key, value, ok).
	next() tuple
}

type closure struct {
	Fn  *ssa.Function
	Env []value
}

type bad struct{}

type rtype struct {
	t types.Type
}

// ---- channels: explicit FIFO buffers (single-threaded model)

type vchan struct {
	buf    []value
	cap    int
	closed bool
}

// blockedPanic unwinds to the nearest RunUntilBlocked (or ends the path).
type blockedPanic struct{ what string }

func (c *vchan) send(v value) {
	if c == nil {
		panic(blockedPanic{"send on nil channel"})
	}
	if c.closed {
		panic(targetPanic{iface{t: types.Typ[types.String], v: "send on closed channel"}})
	}
	if len(c.buf) >= c.cap {
		panic(blockedPanic{"send on full channel"})
	}
	c.buf = append(c.buf, v)
}

func (c *vchan) recv() (value, bool, bool) { // value, ok, ready
	if c == nil {
		return nil, false, false
	}
	if len(c.buf) > 0 {
		v := c.buf[0]
		c.buf = c.buf[1:]
		return v, true, true
	}
	if c.closed {
		return nil, false, true
	}
	return nil, false, false
}

// ---- maps: insertion ordered, deterministic

type omap struct {
	keyType types.Type
	keys    []value
	vals    []value
	live    []bool
	idx     map[interface{}]int
	n       int
}

func makeMap(kt types.Type, reserve int64) value {
	return &omap{keyType: kt, idx: map[interface{}]int{}}
}

type ifaceKey struct {
	t string
	v interface{}
}

// normKey maps an interpreter value to a comparable Go value such that
// normKey(x)==normKey(y) iff x and y are equal under Go's == for the key type.
func normKey(v value) interface{} {
	switch v := v.(type) {
	case bool, int, int8, int16, int32, int64, uint, uint8, uint16, uint32, uint64, uintptr, float32, float64, string, *value, *vchan:
		return v
	case iface:
		if v.t == nil {
			return ifaceKey{}
		}
		return ifaceKey{t: types.TypeString(v.t, nil), v: normKey(v.v)}
	case structure:
		var sb strings.Builder
		sb.WriteString("S{")
		for _, e := range v {
			fmt.Fprintf(&sb, "%T:%v;", normKey(e), normKey(e))
		}
		sb.WriteString("}")
		return sb.String()
	case array:
		var sb strings.Builder
		sb.WriteString("A{")
		for _, e := range v {
			fmt.Fprintf(&sb, "%T:%v;", normKey(e), normKey(e))
		}
		sb.WriteString("}")
		return sb.String()
	case rtype:
		return "rtype:" + types.TypeString(v.t, nil)
	case *sstr:
		// a string with symbolic bytes used as a map key is enumerated
		// over its feasible values (one fork per symbolic byte)
		buf := make([]byte, len(v.b))
		for i, e := range v.b {
			if c, ok := e.(uint8); ok {
				buf[i] = c
			} else {
				buf[i] = byte(v.x.concretize(e.(symInt), "map key byte"))
			}
		}
		return string(buf)
	case symInt:
		return normKey(mkInt(v.k, uint64(v.x.concretize(v, "map key"))))
	case symBool:
		return v.x.decide(v.t)
	}
	panic(targetPanic{iface{t: types.Typ[types.String], v: fmt.Sprintf("runtime error: hash of unhashable type %T", v)}})
}

func (m *omap) lookup(k value) (value, bool) {
	if m == nil {
		return nil, false
	}
	if i, ok := m.idx[normKey(k)]; ok {
		return m.vals[i], true
	}
	return nil, false
}

func (m *omap) insert(k, v value) {
	if m == nil {
		panic(targetPanic{iface{t: types.Typ[types.String], v: "assignment to entry in nil map"}})
	}
	nk := normKey(k)
	if _, sym := k.(*sstr); sym {
		// the key has been enumerated: store its concrete value
		k = nk.(string)
	}
	if i, ok := m.idx[nk]; ok {
		m.vals[i] = v
		return
	}
	m.idx[nk] = len(m.keys)
	m.keys = append(m.keys, k)
	m.vals = append(m.vals, v)
	m.live = append(m.live, true)
	m.n++
}

func (m *omap) delete(k value) {
	if m == nil {
		return
	}
	nk := normKey(k)
	if i, ok := m.idx[nk]; ok {
		delete(m.idx, nk)
		m.live[i] = false
		m.keys[i] = nil
		m.vals[i] = nil
		m.n--
	}
}

func (m *omap) len() int {
	if m == nil {
		return 0
	}
	return m.n
}

type omapIter struct {
	m     *omap
	order []int
	pos   int
	// generation guard: entries deleted (or deleted and re-added at a new
	// position) after the snapshot are skipped
	keys []interface{}
}

func newOmapIter(m *omap, reverse bool) *omapIter {
	it := &omapIter{m: m}
	if m == nil {
		return it
	}
	for i := range m.keys {
		if m.live[i] {
			it.order = append(it.order, i)
		}
	}
	if reverse {
		for i, j := 0, len(it.order)-1; i < j; i, j = i+1, j-1 {
			it.order[i], it.order[j] = it.order[j], it.order[i]
		}
	}
	return it
}

func (it *omapIter) next() tuple {
	for it.pos < len(it.order) {
		i := it.order[it.pos]
		it.pos++
		if i < len(it.m.live) && it.m.live[i] {
			return tuple{true, it.m.keys[i], it.m.vals[i]}
		}
	}
	return tuple{false, nil, nil}
}

// nil-tolerant variant of types.Identical.
func sameType(x, y types.Type) bool {
	if x == nil {
		return y == nil
	}
	return y != nil && types.Identical(x, y)
}

// equalsV returns x == y for type t as a bool or symBool.
func equalsV(t types.Type, x, y value) value {
	if ex := explorerOf(x, y); ex != nil {
		if isStr(x) && isStr(y) {
			return wrapBool(ex, bytesEqTerm(ex, strBytes(x), strBytes(y)))
		}
		return symBinopEq(ex, x, y)
	}
	switch x := x.(type) {
	case bool:
		return x == y.(bool)
	case int:
		return x == y.(int)
	case int8:
		return x == y.(int8)
	case int16:
		return x == y.(int16)
	case int32:
		return x == y.(int32)
	case int64:
		return x == y.(int64)
	case uint:
		return x == y.(uint)
	case uint8:
		return x == y.(uint8)
	case uint16:
		return x == y.(uint16)
	case uint32:
		return x == y.(uint32)
	case uint64:
		return x == y.(uint64)
	case uintptr:
		return x == y.(uintptr)
	case float32:
		return x == y.(float32)
	case float64:
		return x == y.(float64)
	case complex64:
		return x == y.(complex64)
	case complex128:
		return x == y.(complex128)
	case string:
		if ys, ok := y.(*sstr); ok {
			return wrapBool(ys.x, bytesEqTerm(ys.x, strBytes(x), ys.b))
		}
		return x == y.(string)
	case *sstr:
		return wrapBool(x.x, bytesEqTerm(x.x, x.b, strBytes(y)))
	case *value:
		return x == y.(*value)
	case *vchan:
		return x == y.(*vchan)
	case unsafe.Pointer:
		return x == y.(unsafe.Pointer)
	case structure:
		yy := y.(structure)
		tStruct := t.Underlying().(*types.Struct)
		var res value = true
		for i, n := 0, tStruct.NumFields(); i < n; i++ {
			if f := tStruct.Field(i); f.Name() != "_" {
				res = andV(res, equalsV(f.Type(), x[i], yy[i]))
				if res == false {
					return false
				}
			}
		}
		return res
	case array:
		yy := y.(array)
		tElt := t.Underlying().(*types.Array).Elem()
		var res value = true
		for i := range x {
			res = andV(res, equalsV(tElt, x[i], yy[i]))
			if res == false {
				return false
			}
		}
		return res
	case iface:
		yy := y.(iface)
		if !sameType(x.t, yy.t) {
			return false
		}
		if x.t == nil {
			return true
		}
		return equalsV(x.t, x.v, yy.v)
	case rtype:
		return types.Identical(x.t, y.(rtype).t)
	}

	// Since map, func and slice don't support comparison, this
	// case is only reachable if one of x or y is literally nil
	// (handled in eqnil) or via interface{} values.
	panic(targetPanic{iface{t: types.Typ[types.String], v: fmt.Sprintf("runtime error: comparing uncomparable type %s", t)}})
}

func symBinopEq(ex *Explorer, x, y value) value {
	c := ex.ctx
	if isBoolVal(x) {
		return wrapBool(ex, c.Eq(boolTerm(ex, x), boolTerm(ex, y)))
	}
	a, _ := intTerm(ex, x)
	b, _ := intTerm(ex, y)
	return wrapBool(ex, c.Eq(a, b))
}

func andV(a, b value) value {
	if ab, ok := a.(bool); ok {
		if !ab {
			return false
		}
		return b
	}
	if bb, ok := b.(bool); ok {
		if !bb {
			return false
		}
		return a
	}
	sa, sb := a.(symBool), b.(symBool)
	return wrapBool(sa.x, sa.x.ctx.And(sa.t, sb.t))
}

func notV(a value) value {
	switch a := a.(type) {
	case bool:
		return !a
	case symBool:
		return wrapBool(a.x, a.x.ctx.Not(a.t))
	}
	panic(engineError("notV: not a bool"))
}

// load returns the value of type T in *addr.
func load(T types.Type, addr *value) value {
	switch T := T.Underlying().(type) {
	case *types.Struct:
		v := (*addr).(structure)
		a := make(structure, len(v))
		for i := range a {
			a[i] = load(T.Field(i).Type(), &v[i])
		}
		return a
	case *types.Array:
		v := (*addr).(array)
		a := make(array, len(v))
		for i := range a {
			a[i] = load(T.Elem(), &v[i])
		}
		return a
	default:
		return *addr
	}
}

// store stores value v of type T into *addr.
func store(T types.Type, addr *value, v value) {
	switch T := T.Underlying().(type) {
	case *types.Struct:
		lhs := (*addr).(structure)
		rhs := v.(structure)
		for i := range lhs {
			store(T.Field(i).Type(), &lhs[i], rhs[i])
		}
	case *types.Array:
		lhs := (*addr).(array)
		rhs := v.(array)
		for i := range lhs {
			store(T.Elem(), &lhs[i], rhs[i])
		}
	default:
		*addr = v
	}
}

// copyVal returns a copy of v that shares no struct/array cells with it.
func copyVal(v value) value {
	switch v := v.(type) {
	case structure:
		a := make(structure, len(v))
		for i := range v {
			a[i] = copyVal(v[i])
		}
		return a
	case array:
		a := make(array, len(v))
		for i := range v {
			a[i] = copyVal(v[i])
		}
		return a
	}
	return v
}

// Prints in the style of built-in println.
func writeValue(buf *bytes.Buffer, v value) {
	switch v := v.(type) {
	case nil, bool, int, int8, int16, int32, int64, uint, uint8, uint16, uint32, uint64, uintptr, float32, float64, complex64, complex128, string:
		fmt.Fprintf(buf, "%v", v)

	case symInt:
		fmt.Fprintf(buf, "<sym %v #%d>", v.k, v.t.ID)
	case symBool:
		fmt.Fprintf(buf, "<symbool #%d>", v.t.ID)
	case *sstr:
		buf.WriteString("<sstr ")
		for _, e := range v.b {
			if c, ok := e.(uint8); ok {
				buf.WriteByte(c)
			} else {
				buf.WriteByte('?')
			}
		}
		buf.WriteString(">")

	case *omap:
		buf.WriteString("map[")
		if v != nil {
			sep := ""
			for i, k := range v.keys {
				if !v.live[i] {
					continue
				}
				buf.WriteString(sep)
				sep = " "
				writeValue(buf, k)
				buf.WriteString(":")
				writeValue(buf, v.vals[i])
			}
		}
		buf.WriteString("]")

	case *vchan:
		fmt.Fprintf(buf, "%p", v)

	case *value:
		if v == nil {
			buf.WriteString("<nil>")
		} else {
			fmt.Fprintf(buf, "%p", v)
		}

	case iface:
		fmt.Fprintf(buf, "(%s, ", v.t)
		writeValue(buf, v.v)
		buf.WriteString(")")

	case structure:
		buf.WriteString("{")
		for i, e := range v {
			if i > 0 {
				buf.WriteString(" ")
			}
			writeValue(buf, e)
		}
		buf.WriteString("}")

	case array:
		buf.WriteString("[")
		for i, e := range v {
			if i > 0 {
				buf.WriteString(" ")
			}
			writeValue(buf, e)
		}
		buf.WriteString("]")

	case []value:
		buf.WriteString("[")
		for i, e := range v {
			if i > 0 {
				buf.WriteString(" ")
			}
			writeValue(buf, e)
		}
		buf.WriteString("]")

	case *ssa.Function, *ssa.Builtin, *closure:
		fmt.Fprintf(buf, "%p", v) // (an address)

	case rtype:
		buf.WriteString(v.t.String())

	case tuple:
		buf.WriteString("(")
		for i, e := range v {
			if i > 0 {
				buf.WriteString(", ")
			}
			writeValue(buf, e)
		}
		buf.WriteString(")")

	default:
		fmt.Fprintf(buf, "<%T>", v)
	}
}

// Implements printing of Go values in the style of built-in println.
func toString(v value) string {
	var b bytes.Buffer
	writeValue(&b, v)
	return b.String()
}

// ------------------------------------------------------------------------
// Iterators

type stringIter struct {
	*strings.Reader
	i int
}

func (it *stringIter) next() tuple {
	okv := make(tuple, 3)
	ch, n, err := it.ReadRune()
	ok := err != io.EOF
	okv[0] = ok
	if ok {
		okv[1] = it.i
		okv[2] = ch
	}
	it.i += n
	return okv
}
