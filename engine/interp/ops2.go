package interp

// Operator functions rewritten for symbolic values, ordered maps and
// explicit channels (replacing their upstream counterparts in ops.go).

import (
	"bytes"
	"fmt"
	"go/token"
	"go/types"
	"os"
	"strings"

	"golang.org/x/tools/go/ssa"
)

func mustDeref(t types.Type) types.Type {
	if p, ok := t.Underlying().(*types.Pointer); ok {
		return p.Elem()
	}
	panic(engineError(fmt.Sprintf("mustDeref: %v is not a pointer", t)))
}

func binop(op token.Token, t types.Type, x, y value) value {
	if isSym(x) || isSym(y) {
		return symBinop(op, t, x, y)
	}
	_, sx := x.(*sstr)
	_, sy := y.(*sstr)
	if sx || sy {
		return symStrBinop(op, x, y)
	}
	return binopConcrete(op, t, x, y)
}

// slice returns x[lo:hi:max].  Any of lo, hi and max may be nil.
func slice(x, lo, hi, max value) value {
	var Len, Cap int
	switch x := x.(type) {
	case string:
		Len = len(x)
	case *sstr:
		Len = len(x.b)
	case []value:
		Len = len(x)
		Cap = cap(x)
	case *value: // *array
		a := (*x).(array)
		Len = len(a)
		Cap = cap(a)
	}

	l := int64(0)
	if lo != nil {
		l = concreteInt(lo, "slice low bound")
	}

	h := int64(Len)
	if hi != nil {
		h = concreteInt(hi, "slice high bound")
	}

	m := int64(Cap)
	if max != nil {
		m = concreteInt(max, "slice max bound")
	}

	switch x := x.(type) {
	case string:
		return x[l:h]
	case *sstr:
		return mkStr(x.x, x.b[l:h])
	case []value:
		return x[l:h:m]
	case *value: // *array
		a := (*x).(array)
		return []value(a)[l:h:m]
	}
	panic(fmt.Sprintf("slice: unexpected X type: %T", x))
}

// lookup returns x[idx] where x is a map.
func lookup(instr *ssa.Lookup, x, idx value) value {
	switch x := x.(type) {
	case *omap:
		v, ok := x.lookup(idx)
		if !ok {
			v = zero(instr.X.Type().Underlying().(*types.Map).Elem())
		} else {
			v = copyVal(v)
		}
		if instr.CommaOk {
			v = tuple{v, ok}
		}
		return v
	}
	panic(fmt.Sprintf("unexpected x type in Lookup: %T", x))
}

// eqnil returns the comparison x == y using the equivalence relation
// appropriate for type t.
func eqnil(t types.Type, x, y value) value {
	switch t.Underlying().(type) {
	case *types.Map, *types.Signature, *types.Slice:
		// Since these types don't support comparison,
		// one of the operands must be a literal nil.
		switch x := x.(type) {
		case *omap:
			return (x != nil) == (y.(*omap) != nil)
		case *ssa.Function:
			switch y := y.(type) {
			case *ssa.Function:
				return (x != nil) == (y != nil)
			case *closure:
				return x != nil
			}
		case *closure:
			return (x != nil) == (y.(*ssa.Function) != nil)
		case []value:
			return (x != nil) == (y.([]value) != nil)
		}
		panic(fmt.Sprintf("eqnil(%s): illegal dynamic type: %T", t, x))
	}

	return equalsV(t, x, y)
}

func unop(instr *ssa.UnOp, x value) value {
	switch instr.Op {
	case token.ARROW: // receive
		v, ok, ready := x.(*vchan).recv()
		if !ready {
			panic(blockedPanic{"receive on empty channel"})
		}
		if !ok {
			v = zero(instr.X.Type().Underlying().(*types.Chan).Elem())
		}
		if instr.CommaOk {
			v = tuple{v, ok}
		}
		return v
	case token.SUB:
		switch x := x.(type) {
		case symInt:
			return symUnop(instr.Op, x)
		case int:
			return -x
		case int8:
			return -x
		case int16:
			return -x
		case int32:
			return -x
		case int64:
			return -x
		case uint:
			return -x
		case uint8:
			return -x
		case uint16:
			return -x
		case uint32:
			return -x
		case uint64:
			return -x
		case uintptr:
			return -x
		case float32:
			return -x
		case float64:
			return -x
		}
	case token.MUL:
		return load(mustDeref(instr.X.Type()), x.(*value))
	case token.NOT:
		if s, ok := x.(symBool); ok {
			return symUnop(instr.Op, s)
		}
		return !x.(bool)
	case token.XOR:
		switch x := x.(type) {
		case symInt:
			return symUnop(instr.Op, x)
		case int:
			return ^x
		case int8:
			return ^x
		case int16:
			return ^x
		case int32:
			return ^x
		case int64:
			return ^x
		case uint:
			return ^x
		case uint8:
			return ^x
		case uint16:
			return ^x
		case uint32:
			return ^x
		case uint64:
			return ^x
		case uintptr:
			return ^x
		}
	}
	panic(fmt.Sprintf("invalid unary op %s %T", instr.Op, x))
}

// callBuiltin interprets a call to builtin fn with arguments args,
// returning its result.
func callBuiltin(caller *frame, callpos token.Pos, fn *ssa.Builtin, args []value) value {
	switch fn.Name() {
	case "append":
		if len(args) == 1 {
			return args[0]
		}
		if isStr(args[1]) {
			// append([]byte, ...string) []byte
			arg0 := args[0].([]value)
			return append(arg0, strBytes(args[1])...)
		}
		// append([]T, ...[]T) []T
		src := args[1].([]value)
		cp := make([]value, len(src))
		for i := range src {
			cp[i] = copyVal(src[i])
		}
		return append(args[0].([]value), cp...)

	case "copy": // copy([]T, []T) int or copy([]byte, string) int
		src := args[1]
		if isStr(src) {
			return copy(args[0].([]value), strBytes(src))
		}
		s := src.([]value)
		d := args[0].([]value)
		n := len(s)
		if len(d) < n {
			n = len(d)
		}
		tmp := make([]value, n)
		for i := 0; i < n; i++ {
			tmp[i] = copyVal(s[i])
		}
		return copy(d, tmp)

	case "close": // close(chan T)
		c := args[0].(*vchan)
		if c == nil {
			panic(targetPanic{iface{t: types.Typ[types.String], v: "close of nil channel"}})
		}
		if c.closed {
			panic(targetPanic{iface{t: types.Typ[types.String], v: "close of closed channel"}})
		}
		c.closed = true
		return nil

	case "delete": // delete(map[K]value, K)
		args[0].(*omap).delete(args[1])
		return nil

	case "print", "println": // print(any, ...)
		ln := fn.Name() == "println"
		var buf bytes.Buffer
		for i, arg := range args {
			if i > 0 && ln {
				buf.WriteRune(' ')
			}
			buf.WriteString(toString(arg))
		}
		if ln {
			buf.WriteRune('\n')
		}
		os.Stderr.Write(buf.Bytes())
		return nil

	case "len":
		switch x := args[0].(type) {
		case string:
			return len(x)
		case *sstr:
			return len(x.b)
		case array:
			return len(x)
		case *value:
			return len((*x).(array))
		case []value:
			return len(x)
		case *omap:
			return x.len()
		case *vchan:
			if x == nil {
				return 0
			}
			return len(x.buf)
		default:
			panic(fmt.Sprintf("len: illegal operand: %T", x))
		}

	case "cap":
		switch x := args[0].(type) {
		case array:
			return cap(x)
		case *value:
			return cap((*x).(array))
		case []value:
			return cap(x)
		case *vchan:
			if x == nil {
				return 0
			}
			return x.cap
		default:
			panic(fmt.Sprintf("cap: illegal operand: %T", x))
		}

	case "min":
		return foldLeft(min, args)
	case "max":
		return foldLeft(max, args)

	case "panic":
		// ssa.Panic handles most cases; this is only for "go
		// panic" or "defer panic".
		panic(targetPanic{args[0]})

	case "recover":
		return doRecover(caller)

	case "ssa:wrapnilchk":
		recv := args[0]
		if recv.(*value) == nil {
			recvType := args[1]
			methodName := args[2]
			panic(runtimePanic(fmt.Sprintf("value method (%s).%s called using nil *%s pointer",
				recvType, methodName, recvType)))
		}
		return recv

	case "ssa:deferstack":
		return &caller.defers

	// unsafe.{SliceData,StringData,String,Slice}: pointers into byte
	// sequences are tracked in a side table
	case "SliceData":
		sl, _ := args[0].([]value)
		if cap(sl) == 0 {
			return (*value)(nil)
		}
		sl = sl[:cap(sl)]
		caller.i.unsafeData[&sl[0]] = sl
		return &sl[0]
	case "StringData":
		b := strBytes(args[0])
		if len(b) == 0 {
			return (*value)(nil)
		}
		cp := make([]value, len(b))
		copy(cp, b)
		caller.i.unsafeData[&cp[0]] = cp
		return &cp[0]
	case "String":
		p := args[0].(*value)
		n := concreteInt(args[1], "unsafe.String len")
		if n == 0 {
			return ""
		}
		sl, ok := caller.i.unsafeData[p]
		if !ok || int(n) > len(sl) {
			panic(engineError("unsafe.String: untracked pointer"))
		}
		return mkStr(caller.i.x, sl[:n])
	case "Slice":
		p := args[0].(*value)
		n := concreteInt(args[1], "unsafe.Slice len")
		if p == nil {
			return []value(nil)
		}
		sl, ok := caller.i.unsafeData[p]
		if !ok || int(n) > len(sl) {
			panic(engineError("unsafe.Slice: untracked pointer"))
		}
		return sl[:n:n]
	}

	panic(engineError("unknown built-in: " + fn.Name()))
}

func rangeIter(fr *frame, x value, t types.Type) iter {
	switch x := x.(type) {
	case *omap:
		return newOmapIter(x, fr.i.x.mapReverse)
	case string:
		return &stringIter{Reader: strings.NewReader(x)}
	case *sstr:
		return &sstrIter{s: x}
	}
	panic(fmt.Sprintf("cannot range over %T", x))
}

// conv converts the value x of type t_src to type t_dst.
func conv(t_dst, t_src types.Type, x value) value {
	ut_src := t_src.Underlying()
	ut_dst := t_dst.Underlying()
	switch xv := x.(type) {
	case symInt:
		if b, ok := ut_dst.(*types.Basic); ok {
			if b.Info()&types.IsInteger != 0 {
				return symConvInt(xv, b.Kind())
			}
			if b.Kind() == types.String {
				// string(rune) of a symbolic rune: enumerate
				r := xv.x.concretize(xv, "rune to string")
				return string(rune(r))
			}
		}
		panic(engineError(fmt.Sprintf("conv: symbolic integer to %s", t_dst)))
	case *sstr:
		switch d := ut_dst.(type) {
		case *types.Basic:
			if d.Kind() == types.String {
				return xv
			}
		case *types.Slice:
			if d.Elem().Underlying().(*types.Basic).Kind() == types.Byte {
				out := make([]value, len(xv.b))
				copy(out, xv.b)
				return out
			}
		}
		panic(engineError(fmt.Sprintf("conv: symbolic string to %s", t_dst)))
	case []value:
		if s, ok := ut_src.(*types.Slice); ok {
			if eb, ok := s.Elem().Underlying().(*types.Basic); ok && eb.Kind() == types.Byte {
				if ex := explorerOf(xv...); ex != nil {
					return mkStr(ex, xv)
				}
			}
		}
	}
	return convConcrete(t_dst, t_src, x)
}
