package interp

// Engine model of encoding/json.Marshal / Unmarshal over interpreter values.
//
// JSON text is a []value of bytes. Structural bytes are always concrete;
// primitive tokens may consist of symbolic bytes (a maximal run of symbolic
// bytes at a value position is one primitive token - the harness constrains
// such bytes to token characters), and a symbolic integer is carried as a
// single jhole element. Custom MarshalJSON / UnmarshalJSON methods of the
// code under test are interpreted, not modelled.

import (
	"fmt"
	"go/token"
	"go/types"
	"sort"
	"strconv"
	"strings"
	"sync"
	"unicode/utf8"

	"golang.org/x/tools/go/ssa"
)

// jhole is a placeholder byte-slice element carrying a symbolic integer.
type jhole struct{ v value }

type jkind int

const (
	jNull jkind = iota
	jBool
	jNum
	jStr
	jArr
	jObj
	jSymTok // run of symbolic bytes: an opaque primitive token
	jHole   // symbolic integer
)

type jnode struct {
	kind   jkind
	b      bool
	num    string
	str    value // string or *sstr (decoded)
	elems  []*jnode
	keys   []string
	start  int
	end    int
	hole   value
	strSym bool
}

type jsonErr struct{ msg string }

// ---------------------------------------------------------------- parsing

type jparser struct {
	d   []value
	pos int
}

func (p *jparser) peek() (byte, bool, bool) { // byte, concrete, ok
	if p.pos >= len(p.d) {
		return 0, false, false
	}
	if c, ok := p.d[p.pos].(uint8); ok {
		return c, true, true
	}
	return 0, false, true
}

func (p *jparser) ws() {
	for {
		c, conc, ok := p.peek()
		if !ok || !conc || (c != ' ' && c != '\t' && c != '\n' && c != '\r') {
			return
		}
		p.pos++
	}
}

func (p *jparser) fail(msg string) {
	panic(jsonErr{fmt.Sprintf("%s at offset %d", msg, p.pos)})
}

func (p *jparser) value() *jnode {
	p.ws()
	c, conc, ok := p.peek()
	if !ok {
		p.fail("unexpected end of JSON input")
	}
	n := &jnode{start: p.pos}
	if !conc {
		if h, isHole := p.d[p.pos].(jhole); isHole {
			n.kind = jHole
			n.hole = h.v
			p.pos++
			n.end = p.pos
			return n
		}
		// run of symbolic bytes = opaque primitive
		for p.pos < len(p.d) {
			if _, isSym := p.d[p.pos].(symInt); !isSym {
				break
			}
			p.pos++
		}
		n.kind = jSymTok
		n.end = p.pos
		return n
	}
	switch {
	case c == '{':
		n.kind = jObj
		p.pos++
		p.ws()
		if c, conc, ok := p.peek(); ok && conc && c == '}' {
			p.pos++
			n.end = p.pos
			return n
		}
		for {
			p.ws()
			c, conc, ok := p.peek()
			if !ok || !conc || c != '"' {
				p.fail("invalid character looking for beginning of object key string")
			}
			k := p.str()
			ks, isC := k.(string)
			if !isC {
				panic(engineError("json: object key with symbolic bytes"))
			}
			p.ws()
			c, conc, ok = p.peek()
			if !ok || !conc || c != ':' {
				p.fail("invalid character after object key")
			}
			p.pos++
			v := p.value()
			n.keys = append(n.keys, ks)
			n.elems = append(n.elems, v)
			p.ws()
			c, conc, ok = p.peek()
			if ok && conc && c == ',' {
				p.pos++
				continue
			}
			if ok && conc && c == '}' {
				p.pos++
				break
			}
			p.fail("invalid character after object key:value pair")
		}
	case c == '[':
		n.kind = jArr
		p.pos++
		p.ws()
		if c, conc, ok := p.peek(); ok && conc && c == ']' {
			p.pos++
			n.end = p.pos
			return n
		}
		for {
			v := p.value()
			n.elems = append(n.elems, v)
			p.ws()
			c, conc, ok := p.peek()
			if ok && conc && c == ',' {
				p.pos++
				continue
			}
			if ok && conc && c == ']' {
				p.pos++
				break
			}
			p.fail("invalid character after array element")
		}
	case c == '"':
		n.kind = jStr
		n.str = p.str()
		_, isC := n.str.(string)
		n.strSym = !isC
	case c == 't':
		p.lit("true")
		n.kind, n.b = jBool, true
	case c == 'f':
		p.lit("false")
		n.kind, n.b = jBool, false
	case c == 'n':
		p.lit("null")
		n.kind = jNull
	case c == '-' || (c >= '0' && c <= '9'):
		n.kind = jNum
		n.num = p.number()
	default:
		p.fail(fmt.Sprintf("invalid character %q looking for beginning of value", c))
	}
	n.end = p.pos
	return n
}

func (p *jparser) lit(s string) {
	for i := 0; i < len(s); i++ {
		c, conc, ok := p.peek()
		if !ok || !conc || c != s[i] {
			p.fail("invalid character in literal " + s)
		}
		p.pos++
	}
}

func (p *jparser) number() string {
	st := p.pos
	get := func() (byte, bool) {
		c, conc, ok := p.peek()
		if !ok {
			return 0, false
		}
		if !conc {
			panic(engineError("json: symbolic byte inside a number"))
		}
		return c, true
	}
	c, _ := get()
	if c == '-' {
		p.pos++
	}
	c, ok := get()
	if !ok {
		p.fail("unexpected end of JSON input")
	}
	if c == '0' {
		p.pos++
	} else if c >= '1' && c <= '9' {
		for {
			c, ok := get()
			if !ok || c < '0' || c > '9' {
				break
			}
			p.pos++
		}
	} else {
		p.fail("invalid character in numeric literal")
	}
	if c, ok := get(); ok && c == '.' {
		p.pos++
		n := 0
		for {
			c, ok := get()
			if !ok || c < '0' || c > '9' {
				break
			}
			p.pos++
			n++
		}
		if n == 0 {
			p.fail("invalid character after decimal point in numeric literal")
		}
	}
	if c, ok := get(); ok && (c == 'e' || c == 'E') {
		p.pos++
		if c, ok := get(); ok && (c == '+' || c == '-') {
			p.pos++
		}
		n := 0
		for {
			c, ok := get()
			if !ok || c < '0' || c > '9' {
				break
			}
			p.pos++
			n++
		}
		if n == 0 {
			p.fail("invalid character in exponent of numeric literal")
		}
	}
	var sb strings.Builder
	for i := st; i < p.pos; i++ {
		sb.WriteByte(p.d[i].(uint8))
	}
	return sb.String()
}

// str parses a string literal and returns the decoded string (string or *sstr).
func (p *jparser) str() value {
	p.pos++ // opening quote
	var out []value
	var ex *Explorer
	for {
		if p.pos >= len(p.d) {
			p.fail("unexpected end of JSON input")
		}
		e := p.d[p.pos]
		c, conc := e.(uint8)
		if !conc {
			s, isSym := e.(symInt)
			if !isSym {
				panic(engineError("json: placeholder inside a string"))
			}
			// symbolic byte inside a string: assumed to be an ordinary
			// character (not quote, backslash or control); recorded.
			ex = s.x
			ex.Stats.Assumptions["symbolic bytes inside JSON strings are neither '\"', '\\\\' nor control characters (constrained by the harness)"] = true
			out = append(out, e)
			p.pos++
			continue
		}
		p.pos++
		switch {
		case c == '"':
			if ex != nil {
				return mkStr(ex, out)
			}
			buf := make([]byte, len(out))
			for i, v := range out {
				buf[i] = v.(uint8)
			}
			// invalid UTF-8 is replaced as encoding/json does
			s := string(buf)
			if !utf8.ValidString(s) {
				var sb strings.Builder
				for len(s) > 0 {
					r, n := utf8.DecodeRuneInString(s)
					if r == utf8.RuneError && n == 1 {
						sb.WriteRune(utf8.RuneError)
					} else {
						sb.WriteString(s[:n])
					}
					s = s[n:]
				}
				s = sb.String()
			}
			return s
		case c < 0x20:
			p.fail("invalid character in string literal")
		case c == '\\':
			if p.pos >= len(p.d) {
				p.fail("unexpected end of JSON input")
			}
			ec, conc := p.d[p.pos].(uint8)
			if !conc {
				panic(engineError("json: symbolic escape"))
			}
			p.pos++
			switch ec {
			case '"', '\\', '/':
				out = append(out, ec)
			case 'b':
				out = append(out, uint8('\b'))
			case 'f':
				out = append(out, uint8('\f'))
			case 'n':
				out = append(out, uint8('\n'))
			case 'r':
				out = append(out, uint8('\r'))
			case 't':
				out = append(out, uint8('\t'))
			case 'u':
				r := p.hex4()
				if utf16IsSurrogate(r) {
					// try to combine with a following \uXXXX
					if p.pos+1 < len(p.d) {
						if a, ok := p.d[p.pos].(uint8); ok && a == '\\' {
							if b, ok := p.d[p.pos+1].(uint8); ok && b == 'u' {
								save := p.pos
								p.pos += 2
								r2 := p.hex4()
								if dec := utf16Decode(r, r2); dec != utf8.RuneError {
									r = dec
								} else {
									p.pos = save
									r = utf8.RuneError
								}
							} else {
								r = utf8.RuneError
							}
						} else {
							r = utf8.RuneError
						}
					} else {
						r = utf8.RuneError
					}
				}
				var tmp [4]byte
				n := utf8.EncodeRune(tmp[:], r)
				for i := 0; i < n; i++ {
					out = append(out, tmp[i])
				}
			default:
				p.fail("invalid character in string escape code")
			}
		default:
			out = append(out, c)
		}
	}
}

func utf16IsSurrogate(r rune) bool { return 0xd800 <= r && r < 0xe000 }
func utf16Decode(r1, r2 rune) rune {
	if 0xd800 <= r1 && r1 < 0xdc00 && 0xdc00 <= r2 && r2 < 0xe000 {
		return (r1-0xd800)<<10 | (r2 - 0xdc00) + 0x10000
	}
	return utf8.RuneError
}

func (p *jparser) hex4() rune {
	var r rune
	for i := 0; i < 4; i++ {
		if p.pos >= len(p.d) {
			p.fail("unexpected end of JSON input")
		}
		c, conc := p.d[p.pos].(uint8)
		if !conc {
			panic(engineError("json: symbolic \\u escape"))
		}
		p.pos++
		switch {
		case c >= '0' && c <= '9':
			r = r*16 + rune(c-'0')
		case c >= 'a' && c <= 'f':
			r = r*16 + rune(c-'a'+10)
		case c >= 'A' && c <= 'F':
			r = r*16 + rune(c-'A'+10)
		default:
			p.fail("invalid character in \\u hexadecimal character escape")
		}
	}
	return r
}

func parseJSON(d []value) (n *jnode, err *jsonErr) {
	defer func() {
		if r := recover(); r != nil {
			if je, ok := r.(jsonErr); ok {
				err = &je
				n = nil
				return
			}
			panic(r)
		}
	}()
	p := &jparser{d: d}
	n = p.value()
	p.ws()
	if p.pos != len(d) {
		p.fail("invalid character after top-level value")
	}
	return n, nil
}

// ---------------------------------------------------------------- helpers

func (i *interpreter) jsonError(msg string) value {
	pkg := i.prog.ImportedPackage("encoding/json")
	if pkg == nil {
		panic(engineError("encoding/json not in program"))
	}
	T := pkg.Type("SyntaxError").Object().Type()
	s := zero(T).(structure)
	s[0] = msg
	var cell value = s
	return iface{t: types.NewPointer(T), v: &cell}
}

var nilError = iface{}

func bytesOf(s string) []value {
	out := make([]value, len(s))
	for i := 0; i < len(s); i++ {
		out[i] = s[i]
	}
	return out
}

var (
	methodCacheMu sync.Mutex
	methodCache   = map[string]*ssa.Function{}
)

// findMethod looks up method name in the method set of T (cached: asking
// the program's MethodSetCache with freshly built pointer types would grow
// it without bound).
func (i *interpreter) findMethod(T types.Type, name string) *ssa.Function {
	key := types.TypeString(T, nil) + "\x00" + name
	methodCacheMu.Lock()
	fn, ok := methodCache[key]
	methodCacheMu.Unlock()
	if ok {
		return fn
	}
	ms := i.prog.MethodSets.MethodSet(T)
	for k := 0; k < ms.Len(); k++ {
		sel := ms.At(k)
		if sel.Obj().Name() == name {
			fn = i.prog.MethodValue(sel)
			break
		}
	}
	methodCacheMu.Lock()
	methodCache[key] = fn
	methodCacheMu.Unlock()
	return fn
}

type jfield struct {
	name      string
	index     []int
	omitEmpty bool
	asString  bool
	typ       types.Type
}

func parseTag(tag string) (name string, opts string, skip bool) {
	st := reflectStructTagGet(tag, "json")
	if st == "-" {
		return "", "", true
	}
	if i := strings.Index(st, ","); i >= 0 {
		return st[:i], st[i+1:], false
	}
	return st, "", false
}

func reflectStructTagGet(tag, key string) string {
	for tag != "" {
		i := 0
		for i < len(tag) && tag[i] == ' ' {
			i++
		}
		tag = tag[i:]
		if tag == "" {
			break
		}
		i = 0
		for i < len(tag) && tag[i] > ' ' && tag[i] != ':' && tag[i] != '"' && tag[i] != 0x7f {
			i++
		}
		if i == 0 || i+1 >= len(tag) || tag[i] != ':' || tag[i+1] != '"' {
			break
		}
		name := tag[:i]
		tag = tag[i+1:]
		i = 1
		for i < len(tag) && tag[i] != '"' {
			if tag[i] == '\\' {
				i++
			}
			i++
		}
		if i >= len(tag) {
			break
		}
		qvalue := tag[:i+1]
		tag = tag[i+1:]
		if key == name {
			v, err := strconv.Unquote(qvalue)
			if err != nil {
				break
			}
			return v
		}
	}
	return ""
}

// structFields lists the JSON fields of struct type st (embedded structs
// flattened, as encoding/json does for untagged anonymous struct fields).
func structFields(st *types.Struct, prefix []int) []jfield {
	var out []jfield
	for k := 0; k < st.NumFields(); k++ {
		f := st.Field(k)
		name, opts, skip := parseTag(st.Tag(k))
		if skip {
			continue
		}
		idx := append(append([]int{}, prefix...), k)
		if f.Anonymous() && name == "" {
			ft := f.Type()
			if p, ok := ft.Underlying().(*types.Pointer); ok {
				ft = p.Elem()
			}
			if est, ok := ft.Underlying().(*types.Struct); ok {
				out = append(out, structFields(est, idx)...)
				continue
			}
		}
		if !f.Exported() {
			continue
		}
		if name == "" {
			name = f.Name()
		}
		out = append(out, jfield{name: name, index: idx, omitEmpty: strings.Contains(","+opts+",", ",omitempty,"), asString: strings.Contains(","+opts+",", ",string,"), typ: f.Type()})
	}
	return out
}

// ---------------------------------------------------------------- marshal

type jenc struct {
	i   *interpreter
	fr  *frame
	out []value
}

type marshalFail struct{ err value }

func (e *jenc) lit(s string) { e.out = append(e.out, bytesOf(s)...) }

func isEmptyValue(T types.Type, v value) bool {
	switch u := T.Underlying().(type) {
	case *types.Basic:
		switch x := v.(type) {
		case bool:
			return !x
		case string:
			return x == ""
		case *sstr:
			return len(x.b) == 0
		case symInt, symBool:
			return false // treated as non-empty (recorded by caller)
		case float32:
			return x == 0
		case float64:
			return x == 0
		}
		if _, ok := intKind(v); ok {
			return asInt64(v) == 0
		}
	case *types.Slice:
		return len(v.([]value)) == 0
	case *types.Map:
		return v.(*omap).len() == 0
	case *types.Pointer:
		return v.(*value) == nil
	case *types.Interface:
		return v.(iface).t == nil
	case *types.Array:
		return u.Len() == 0
	}
	return false
}

func (e *jenc) str(v value) {
	switch s := v.(type) {
	case string:
		e.out = append(e.out, bytesOf(goJSONQuote(s))...)
	case *sstr:
		s.x.Stats.Assumptions["symbolic bytes inside JSON strings are neither '\"', '\\\\' nor control characters (constrained by the harness)"] = true
		e.out = append(e.out, uint8('"'))
		e.out = append(e.out, s.b...)
		e.out = append(e.out, uint8('"'))
	default:
		panic(engineError(fmt.Sprintf("json: string value %T", v)))
	}
}

// goJSONQuote reproduces encoding/json's string encoding (escapeHTML on).
func goJSONQuote(s string) string {
	const hex = "0123456789abcdef"
	var sb strings.Builder
	sb.WriteByte('"')
	for i := 0; i < len(s); {
		if b := s[i]; b < utf8.RuneSelf {
			if b >= 0x20 && b != '"' && b != '\\' && b != '<' && b != '>' && b != '&' {
				sb.WriteByte(b)
				i++
				continue
			}
			sb.WriteByte('\\')
			switch b {
			case '\\', '"':
				sb.WriteByte(b)
			case '\b':
				sb.WriteByte('b')
			case '\f':
				sb.WriteByte('f')
			case '\n':
				sb.WriteByte('n')
			case '\r':
				sb.WriteByte('r')
			case '\t':
				sb.WriteByte('t')
			default:
				sb.WriteString("u00")
				sb.WriteByte(hex[b>>4])
				sb.WriteByte(hex[b&0xF])
			}
			i++
			continue
		}
		c, size := utf8.DecodeRuneInString(s[i:])
		if c == utf8.RuneError && size == 1 {
			sb.WriteString(`\ufffd`)
			i += size
			continue
		}
		if c == '\u2028' || c == '\u2029' {
			sb.WriteString(`\u202`)
			sb.WriteByte(hex[c&0xF])
			i += size
			continue
		}
		sb.WriteString(s[i : i+size])
		i += size
	}
	sb.WriteByte('"')
	return sb.String()
}

// compactInto validates marshaler output and appends it compacted.
func (e *jenc) compactInto(raw []value) {
	n, err := parseJSON(raw)
	if err != nil {
		panic(marshalFail{e.i.jsonError("json: error calling MarshalJSON: " + err.msg)})
	}
	e.renderNode(raw, n)
}

// renderNode re-emits a parsed node without insignificant whitespace,
// keeping the original token bytes (and HTML-escaping inside strings as
// encoding/json's compact does).
func (e *jenc) renderNode(src []value, n *jnode) {
	switch n.kind {
	case jObj:
		e.lit("{")
		for k, c := range n.elems {
			if k > 0 {
				e.lit(",")
			}
			// key token: find it by re-quoting (keys are concrete)
			e.lit(goJSONQuote(n.keys[k]))
			e.lit(":")
			e.renderNode(src, c)
		}
		e.lit("}")
	case jArr:
		e.lit("[")
		for k, c := range n.elems {
			if k > 0 {
				e.lit(",")
			}
			e.renderNode(src, c)
		}
		e.lit("]")
	case jStr:
		for _, b := range src[n.start:n.end] {
			if c, ok := b.(uint8); ok && (c == '<' || c == '>' || c == '&') {
				e.lit(fmt.Sprintf("\\u00%02x", c))
			} else {
				e.out = append(e.out, b)
			}
		}
	default:
		e.out = append(e.out, src[n.start:n.end]...)
	}
}

func (e *jenc) callMarshaler(fn *ssa.Function, recv value) {
	res := call(e.i, e.fr, token.NoPos, fn, []value{recv}).(tuple)
	if err := res[1].(iface); err.t != nil {
		panic(marshalFail{err})
	}
	raw, _ := res[0].([]value)
	e.compactInto(raw)
}

func (e *jenc) enc(T types.Type, v value, addressable *value) {
	// Marshaler?
	if _, isIface := T.Underlying().(*types.Interface); !isIface {
		if fn := e.i.findMethod(T, "MarshalJSON"); fn != nil {
			if p, ok := v.(*value); ok && p == nil {
				if _, isPtr := T.Underlying().(*types.Pointer); isPtr {
					e.lit("null")
					return
				}
			}
			e.callMarshaler(fn, v)
			return
		}
		if addressable != nil {
			if fn := e.i.findMethod(types.NewPointer(T), "MarshalJSON"); fn != nil {
				e.callMarshaler(fn, addressable)
				return
			}
		}
	}
	switch u := T.Underlying().(type) {
	case *types.Basic:
		switch x := v.(type) {
		case bool:
			if x {
				e.lit("true")
			} else {
				e.lit("false")
			}
		case symBool:
			if x.x.decide(x.t) {
				e.lit("true")
			} else {
				e.lit("false")
			}
		case string, *sstr:
			e.str(x)
		case symInt:
			e.out = append(e.out, jhole{x})
		case float64:
			e.lit(strconv.FormatFloat(x, 'g', -1, 64))
		case float32:
			e.lit(strconv.FormatFloat(float64(x), 'g', -1, 32))
		default:
			if k, ok := intKind(v); ok {
				if kindSigned(k) {
					e.lit(strconv.FormatInt(asInt64(v), 10))
				} else {
					e.lit(strconv.FormatUint(uint64(asInt64(v)), 10))
				}
				return
			}
			panic(engineError(fmt.Sprintf("json marshal: basic %v %T", u, v)))
		}
	case *types.Pointer:
		p := v.(*value)
		if p == nil {
			e.lit("null")
			return
		}
		e.enc(u.Elem(), *p, p)
	case *types.Interface:
		itf := v.(iface)
		if itf.t == nil {
			e.lit("null")
			return
		}
		e.enc(itf.t, itf.v, nil)
	case *types.Struct:
		s := v.(structure)
		e.lit("{")
		first := true
		for _, f := range structFields(u, nil) {
			fv, fcell, ok := fieldByIndex(u, s, f.index)
			if !ok {
				continue // nil embedded pointer
			}
			if f.omitEmpty && isEmptyValue(f.typ, fv) {
				continue
			}
			if !first {
				e.lit(",")
			}
			first = false
			e.lit(goJSONQuote(f.name))
			e.lit(":")
			e.enc(f.typ, fv, fcell)
		}
		e.lit("}")
	case *types.Map:
		m := v.(*omap)
		if m == nil {
			e.lit("null")
			return
		}
		type kv struct {
			k string
			v value
		}
		var kvs []kv
		for idx, k := range m.keys {
			if !m.live[idx] {
				continue
			}
			ks, ok := k.(string)
			if !ok {
				panic(engineError(fmt.Sprintf("json marshal: map key %T", k)))
			}
			kvs = append(kvs, kv{ks, m.vals[idx]})
		}
		sort.Slice(kvs, func(a, b int) bool { return kvs[a].k < kvs[b].k })
		e.lit("{")
		for k, p := range kvs {
			if k > 0 {
				e.lit(",")
			}
			e.lit(goJSONQuote(p.k))
			e.lit(":")
			e.enc(u.Elem(), p.v, nil)
		}
		e.lit("}")
	case *types.Slice:
		sl := v.([]value)
		if sl == nil {
			e.lit("null")
			return
		}
		if b, ok := u.Elem().Underlying().(*types.Basic); ok && b.Kind() == types.Uint8 {
			panic(engineError("json marshal: []byte (base64) not modelled"))
		}
		e.lit("[")
		for k := range sl {
			if k > 0 {
				e.lit(",")
			}
			e.enc(u.Elem(), sl[k], &sl[k])
		}
		e.lit("]")
	case *types.Array:
		a := v.(array)
		e.lit("[")
		for k := range a {
			if k > 0 {
				e.lit(",")
			}
			e.enc(u.Elem(), a[k], &a[k])
		}
		e.lit("]")
	default:
		panic(engineError(fmt.Sprintf("json marshal: unsupported type %s", T)))
	}
}

// fieldByIndex walks an index path through embedded structs/pointers.
func fieldByIndex(st *types.Struct, s structure, index []int) (value, *value, bool) {
	cur := s
	curT := st
	for d, k := range index {
		f := curT.Field(k)
		if d == len(index)-1 {
			return cur[k], &cur[k], true
		}
		ft := f.Type()
		v := cur[k]
		if p, ok := ft.Underlying().(*types.Pointer); ok {
			pv := v.(*value)
			if pv == nil {
				return nil, nil, false
			}
			v = *pv
			ft = p.Elem()
		}
		cur = v.(structure)
		curT = ft.Underlying().(*types.Struct)
	}
	return nil, nil, false
}

func extJSONMarshal(fr *frame, a []value) (res value) {
	e := &jenc{i: fr.i, fr: fr}
	defer func() {
		if r := recover(); r != nil {
			if mf, ok := r.(marshalFail); ok {
				res = tuple{[]value(nil), mf.err}
				return
			}
			panic(r)
		}
	}()
	itf := a[0].(iface)
	if itf.t == nil {
		return tuple{bytesOf("null"), nilError}
	}
	e.enc(itf.t, itf.v, nil)
	return tuple{e.out, nilError}
}

// ---------------------------------------------------------------- unmarshal

type jdec struct {
	i   *interpreter
	fr  *frame
	src []value
	err *jsonErr // first type error (decoding continues, as encoding/json does)
}

func (d *jdec) typeErr(n *jnode, T types.Type) {
	if d.err == nil {
		d.err = &jsonErr{fmt.Sprintf("json: cannot unmarshal %s into Go value of type %s", kindName(n), T)}
	}
}

func kindName(n *jnode) string {
	switch n.kind {
	case jNull:
		return "null"
	case jBool:
		return "bool"
	case jNum, jHole:
		return "number"
	case jStr:
		return "string"
	case jArr:
		return "array"
	case jObj:
		return "object"
	}
	return "value"
}

func (d *jdec) raw(n *jnode) []value {
	out := make([]value, n.end-n.start)
	copy(out, d.src[n.start:n.end])
	return out
}

// dec decodes node n into the cell at addr, which holds a value of type T.
func (d *jdec) dec(T types.Type, addr *value, n *jnode) {
	// Unmarshaler on *T ?
	if _, isIface := T.Underlying().(*types.Interface); !isIface {
		if _, isPtr := T.Underlying().(*types.Pointer); !isPtr {
			if fn := d.i.findMethod(types.NewPointer(T), "UnmarshalJSON"); fn != nil {
				res := call(d.i, d.fr, token.NoPos, fn, []value{addr, d.raw(n)})
				if err, ok := res.(iface); ok && err.t != nil {
					panic(unmarshalFail{err})
				}
				return
			}
		}
	}
	switch u := T.Underlying().(type) {
	case *types.Pointer:
		if n.kind == jNull {
			*addr = (*value)(nil)
			return
		}
		p, _ := (*addr).(*value)
		if p == nil {
			cell := zero(u.Elem())
			p = &cell
			*addr = p
		}
		d.dec(u.Elem(), p, n)
	case *types.Interface:
		if n.kind == jNull {
			*addr = iface{}
			return
		}
		if u.NumMethods() != 0 {
			d.typeErr(n, T)
			return
		}
		*addr = d.generic(n)
	case *types.Struct:
		if n.kind == jNull {
			return
		}
		if n.kind != jObj {
			d.typeErr(n, T)
			return
		}
		s := (*addr).(structure)
		fields := structFields(u, nil)
		for k, key := range n.keys {
			var f *jfield
			for fi := range fields {
				if fields[fi].name == key {
					f = &fields[fi]
					break
				}
			}
			if f == nil {
				for fi := range fields {
					if strings.EqualFold(fields[fi].name, key) {
						f = &fields[fi]
						break
					}
				}
			}
			if f == nil {
				continue
			}
			cell := fieldCellAlloc(u, s, f.index)
			d.dec(f.typ, cell, n.elems[k])
		}
	case *types.Map:
		if n.kind == jNull {
			return
		}
		if n.kind != jObj {
			d.typeErr(n, T)
			return
		}
		if kb, ok := u.Key().Underlying().(*types.Basic); !ok || kb.Kind() != types.String {
			panic(engineError("json unmarshal: non-string map key"))
		}
		m, _ := (*addr).(*omap)
		if m == nil {
			m = makeMap(u.Key(), 0).(*omap)
			*addr = m
		}
		for k, key := range n.keys {
			cell := zero(u.Elem())
			d.dec(u.Elem(), &cell, n.elems[k])
			m.insert(key, cell)
		}
	case *types.Slice:
		if n.kind == jNull {
			*addr = []value(nil)
			return
		}
		if b, ok := u.Elem().Underlying().(*types.Basic); ok && b.Kind() == types.Uint8 {
			panic(engineError("json unmarshal: []byte (base64) not modelled"))
		}
		if n.kind != jArr {
			d.typeErr(n, T)
			return
		}
		sl := make([]value, len(n.elems))
		for k := range sl {
			sl[k] = zero(u.Elem())
			d.dec(u.Elem(), &sl[k], n.elems[k])
		}
		*addr = sl
	case *types.Basic:
		if n.kind == jNull {
			return
		}
		info := u.Info()
		switch {
		case u.Kind() == types.String:
			if n.kind != jStr {
				d.typeErr(n, T)
				return
			}
			*addr = n.str
		case u.Kind() == types.Bool:
			if n.kind != jBool {
				d.typeErr(n, T)
				return
			}
			*addr = n.b
		case info&types.IsInteger != 0:
			k := u.Kind()
			switch n.kind {
			case jHole:
				s, ok := n.hole.(symInt)
				if !ok {
					*addr = conv(T, types.Typ[types.Int64], n.hole)
					return
				}
				if kindWidth(s.k) != kindWidth(k) || kindSigned(s.k) != kindSigned(k) {
					panic(engineError("json unmarshal: symbolic integer decoded into a different integer kind"))
				}
				*addr = symInt{t: s.t, k: k, x: s.x}
			case jNum:
				if kindSigned(k) {
					v, err := strconv.ParseInt(n.num, 10, kindWidth(k))
					if err != nil {
						d.typeErr(n, T)
						return
					}
					*addr = mkInt(k, uint64(v))
				} else {
					v, err := strconv.ParseUint(n.num, 10, kindWidth(k))
					if err != nil {
						d.typeErr(n, T)
						return
					}
					*addr = mkInt(k, v)
				}
			default:
				d.typeErr(n, T)
			}
		case info&types.IsFloat != 0:
			if n.kind != jNum {
				d.typeErr(n, T)
				return
			}
			f, _ := strconv.ParseFloat(n.num, 64)
			if u.Kind() == types.Float32 {
				*addr = float32(f)
			} else {
				*addr = f
			}
		default:
			panic(engineError(fmt.Sprintf("json unmarshal: basic kind %v", u)))
		}
	default:
		panic(engineError(fmt.Sprintf("json unmarshal: unsupported type %s", T)))
	}
}

// fieldCellAlloc returns the cell of a (possibly promoted) field, allocating
// nil embedded pointers on the way as encoding/json does.
func fieldCellAlloc(st *types.Struct, s structure, index []int) *value {
	cur := s
	curT := st
	for d, k := range index {
		if d == len(index)-1 {
			return &cur[k]
		}
		ft := curT.Field(k).Type()
		if p, ok := ft.Underlying().(*types.Pointer); ok {
			pv, _ := cur[k].(*value)
			if pv == nil {
				cell := zero(p.Elem())
				pv = &cell
				cur[k] = pv
			}
			cur = (*pv).(structure)
			curT = p.Elem().Underlying().(*types.Struct)
		} else {
			cur = cur[k].(structure)
			curT = ft.Underlying().(*types.Struct)
		}
	}
	return nil
}

var (
	tEmptyIface = types.NewInterfaceType(nil, nil)
	tGenericMap = types.NewMap(types.Typ[types.String], tEmptyIface)
	tGenericArr = types.NewSlice(tEmptyIface)
)

func (d *jdec) generic(n *jnode) value {
	switch n.kind {
	case jNull:
		return iface{}
	case jBool:
		return iface{t: types.Typ[types.Bool], v: n.b}
	case jNum:
		f, _ := strconv.ParseFloat(n.num, 64)
		return iface{t: types.Typ[types.Float64], v: f}
	case jStr:
		return iface{t: types.Typ[types.String], v: n.str}
	case jArr:
		sl := make([]value, len(n.elems))
		for k, c := range n.elems {
			sl[k] = d.generic(c)
		}
		return iface{t: tGenericArr, v: sl}
	case jObj:
		m := makeMap(types.Typ[types.String], 0).(*omap)
		for k, key := range n.keys {
			m.insert(key, d.generic(n.elems[k]))
		}
		return iface{t: tGenericMap, v: m}
	}
	panic(engineError("json unmarshal: symbolic token decoded into interface{}"))
}

type unmarshalFail struct{ err value }

func extJSONUnmarshal(fr *frame, a []value) (res value) {
	data, _ := a[0].([]value)
	target := a[1].(iface)
	if target.t == nil {
		return fr.i.jsonError("json: Unmarshal(nil)")
	}
	pt, ok := target.t.Underlying().(*types.Pointer)
	if !ok {
		return fr.i.jsonError("json: Unmarshal(non-pointer " + target.t.String() + ")")
	}
	p := target.v.(*value)
	if p == nil {
		return fr.i.jsonError("json: Unmarshal(nil " + target.t.String() + ")")
	}
	n, perr := parseJSON(data)
	if perr != nil {
		return fr.i.jsonError(perr.msg)
	}
	d := &jdec{i: fr.i, fr: fr, src: data}
	defer func() {
		if r := recover(); r != nil {
			if uf, ok := r.(unmarshalFail); ok {
				res = uf.err
				return
			}
			panic(r)
		}
	}()
	d.dec(pt.Elem(), p, n)
	if d.err != nil {
		return fr.i.jsonError(d.err.msg)
	}
	return nilError
}

// (*json.RawMessage).UnmarshalJSON / (json.RawMessage).MarshalJSON are plain
// Go and are interpreted. json.Valid is modelled by the parser.
func extJSONValid(fr *frame, a []value) value {
	data, _ := a[0].([]value)
	_, err := parseJSON(data)
	return err == nil
}

func init() {
	externals["encoding/json.Marshal"] = extJSONMarshal
	externals["encoding/json.Unmarshal"] = extJSONUnmarshal
	externals["encoding/json.Valid"] = extJSONValid
}
