package interp

// Environment stubs for the lifecycle harnesses: websocket frame capture,
// timer queue, clock.

import (
	"fmt"
	"go/token"
	"go/types"
)

const (
	wsPkg = "github.com/gorilla/websocket"
	tqPkg = "github.com/jirenius/timerqueue"
)

type tqState struct {
	vals []value
}

func (i *interpreter) tq(q value) *tqState {
	key := fmt.Sprintf("tq:%p", q.(*value))
	if s, ok := i.side[key]; ok {
		return s.(*tqState)
	}
	s := &tqState{}
	i.side[key] = s
	return s
}

func (s *tqState) index(v value) int {
	nk := normKey(v)
	for k, e := range s.vals {
		if normKey(e) == nk {
			return k
		}
	}
	return -1
}

func init() {
	for k, v := range map[string]externalFn{
		"(*" + wsPkg + ".Conn).WriteMessage": func(fr *frame, a []value) value {
			key := fmt.Sprintf("ws:%p", a[0].(*value))
			lst, _ := fr.i.side[key].([]value)
			data, _ := a[2].([]value)
			fr.i.side[key] = append(lst, mkStr(fr.i.x, data))
			return nilError
		},
		"(*" + wsPkg + ".Conn).Close": func(fr *frame, a []value) value {
			fr.i.side[fmt.Sprintf("wsclosed:%p", a[0].(*value))] = true
			return nilError
		},
		// ReadMessage asks the reader hook the harness registered for the
		// socket: state 0 = a frame, 1 = nothing to read yet (blocks),
		// 2 = the peer closed the socket
		"(*" + wsPkg + ".Conn).ReadMessage": func(fr *frame, a []value) value {
			fn, ok := fr.i.side[fmt.Sprintf("wsreader:%p", a[0].(*value))]
			if !ok {
				panic(blockedPanic{"websocket read without a reader hook"})
			}
			res := call(fr.i, fr, token.NoPos, fn.(value), nil).(tuple)
			switch asInt64(res[1]) {
			case 0:
				return tuple{1, res[0], nilError}
			case 1:
				panic(blockedPanic{"websocket read: nothing to read"})
			}
			pkg := fr.i.prog.ImportedPackage("errors")
			return tuple{-1, []value(nil), call(fr.i, fr, token.NoPos, pkg.Func("New"), []value{"websocket: close 1006 (abnormal closure)"})}
		},
		zz + "WSReader": func(fr *frame, a []value) value {
			itf := a[0].(iface)
			p, _ := itf.v.(*value)
			fr.i.side[fmt.Sprintf("wsreader:%p", p)] = a[1]
			return nil
		},
		zz + "WSFrames": func(fr *frame, a []value) value {
			itf := a[0].(iface)
			p, _ := itf.v.(*value)
			lst, _ := fr.i.side[fmt.Sprintf("ws:%p", p)].([]value)
			out := make([]value, len(lst))
			copy(out, lst)
			return out
		},
		zz + "WSClosed": func(fr *frame, a []value) value {
			itf := a[0].(iface)
			p, _ := itf.v.(*value)
			_, ok := fr.i.side[fmt.Sprintf("wsclosed:%p", p)]
			return ok
		},
		zz + "DropSpawnedFrom": func(fr *frame, a []value) value {
			for k, th := range fr.i.spawned {
				if k >= int(asInt64(a[0])) {
					th.done = true
				}
			}
			return nil
		},
		zz + "DropSpawned": func(fr *frame, a []value) value {
			for _, th := range fr.i.spawned {
				th.done = true
			}
			return nil
		},

		// ---- timerqueue: entries kept in a side table; firing is a harness
		// action (Flush)
		"(*" + tqPkg + ".Queue).Add": func(fr *frame, a []value) value {
			s := fr.i.tq(a[0])
			if s.index(a[1]) >= 0 {
				panic(targetPanic{iface{t: types.Typ[types.String], v: "Value already in queue"}})
			}
			s.vals = append(s.vals, a[1])
			return nil
		},
		"(*" + tqPkg + ".Queue).Remove": func(fr *frame, a []value) value {
			s := fr.i.tq(a[0])
			k := s.index(a[1])
			if k < 0 {
				return false
			}
			s.vals = append(s.vals[:k:k], s.vals[k+1:]...)
			return true
		},
		"(*" + tqPkg + ".Queue).Len": func(fr *frame, a []value) value {
			return len(fr.i.tq(a[0]).vals)
		},
		"(*" + tqPkg + ".Queue).Clear": func(fr *frame, a []value) value {
			s := fr.i.tq(a[0])
			out := s.vals
			s.vals = nil
			return out
		},
		"(*" + tqPkg + ".Queue).Flush": func(fr *frame, a []value) value {
			s := fr.i.tq(a[0])
			vals := s.vals
			s.vals = nil
			q := (*a[0].(*value)).(structure)
			cb := q[len(q)-1]
			for _, v := range vals {
				call(fr.i, fr, token.NoPos, cb, []value{v})
			}
			return nil
		},
		"(*" + tqPkg + ".Queue).Reset": func(fr *frame, a []value) value {
			s := fr.i.tq(a[0])
			k := s.index(a[1])
			if k < 0 {
				return false
			}
			v := s.vals[k]
			s.vals = append(append(s.vals[:k:k], s.vals[k+1:]...), v)
			return true
		},
	} {
		externals[k] = v
	}
}

func init() {
	// xid: connection ids are opaque; a per-path counter keeps them distinct
	externals["github.com/rs/xid.New"] = func(fr *frame, a []value) value {
		n, _ := fr.i.side["xid"].(int)
		n++
		fr.i.side["xid"] = n
		id := make(array, 12)
		for k := range id {
			id[k] = uint8(0)
		}
		id[11] = uint8(n)
		return id
	}
	externals["(github.com/rs/xid.ID).String"] = func(fr *frame, a []value) value {
		id := a[0].(array)
		return fmt.Sprintf("xid%017d", id[11].(uint8))
	}
	externals["time.Now"] = func(fr *frame, a []value) value {
		pkg := fr.i.prog.ImportedPackage("time")
		return zero(pkg.Type("Time").Object().Type())
	}
}

const natsPkg = "github.com/nats-io/nats.go"

// NATS client library and timers for the adapter harness (C18). The library
// cannot run without a server, so these stubs stand for its documented
// behaviour; counterexamples of that harness are replayed in the engine only.
func init() {
	subField := func(fr *frame, name string) int {
		T := fr.i.prog.ImportedPackage(natsPkg).Type("Subscription").Object().Type().Underlying().(*types.Struct)
		for k := 0; k < T.NumFields(); k++ {
			if T.Field(k).Name() == name {
				return k
			}
		}
		panic(engineError("nats.Subscription field " + name))
	}
	for k, v := range map[string]externalFn{
		natsPkg + ".NewInbox": func(fr *frame, a []value) value {
			n, _ := fr.i.side["inbox"].(int)
			n++
			fr.i.side["inbox"] = n
			return fmt.Sprintf("_INBOX.%022d", n) // 29 bytes like the library's
		},
		"(*" + natsPkg + ".Conn).ChanSubscribe": func(fr *frame, a []value) value {
			if e, ok := fr.i.side["nats-subscribe-error"]; ok && e != nil {
				return tuple{(*value)(nil), e}
			}
			T := fr.i.prog.ImportedPackage(natsPkg).Type("Subscription").Object().Type()
			var cell value = zero(T)
			cell.(structure)[subField(fr, "Subject")] = a[1]
			p := &cell
			lst, _ := fr.i.side["nats-subs"].([]value)
			fr.i.side["nats-subs"] = append(lst, p)
			return tuple{p, nilError}
		},
		"(*" + natsPkg + ".Conn).PublishRequest": func(fr *frame, a []value) value {
			if e, ok := fr.i.side["nats-publish-error"]; ok && e != nil {
				return e
			}
			lst, _ := fr.i.side["nats-published"].([]value)
			fr.i.side["nats-published"] = append(lst, a[1])
			return nilError
		},
		"(*" + natsPkg + ".Conn).IsClosed": func(fr *frame, a []value) value {
			b, _ := fr.i.side["nats-conn-closed"].(bool)
			return b
		},
		"(*" + natsPkg + ".Conn).LastError": func(fr *frame, a []value) value { return nilError },
		zz + "NatsSetClosed": func(fr *frame, a []value) value {
			fr.i.side["nats-conn-closed"] = a[0].(bool)
			return nil
		},
		"(*" + natsPkg + ".Conn).Close":    func(fr *frame, a []value) value { return nil },
		"(*" + natsPkg + ".Subscription).Unsubscribe": func(fr *frame, a []value) value {
			if e, ok := fr.i.side["nats-unsubscribe-error"]; ok && e != nil {
				// e.g. the connection is already closed
				return e
			}
			key := fmt.Sprintf("nats-unsub:%p", a[0].(*value))
			n, _ := fr.i.side[key].(int)
			fr.i.side[key] = n + 1
			return nilError
		},
		zz + "NatsFailUnsubscribe": func(fr *frame, a []value) value {
			if a[0].(bool) {
				pkg := fr.i.prog.ImportedPackage("errors")
				fr.i.side["nats-unsubscribe-error"] = call(fr.i, fr, token.NoPos, pkg.Func("New"), []value{"nats: connection closed"})
			} else {
				fr.i.side["nats-unsubscribe-error"] = nil
			}
			return nil
		},
		zz + "NatsSubs": func(fr *frame, a []value) value {
			lst, _ := fr.i.side["nats-subs"].([]value)
			out := make([]value, len(lst))
			for k, p := range lst {
				out[k] = iface{t: types.NewPointer(fr.i.prog.ImportedPackage(natsPkg).Type("Subscription").Object().Type()), v: p}
			}
			return out
		},
		zz + "NatsUnsubscribed": func(fr *frame, a []value) value {
			p, _ := a[0].(iface).v.(*value)
			n, _ := fr.i.side[fmt.Sprintf("nats-unsub:%p", p)].(int)
			return n
		},
		zz + "NatsFailPublish": func(fr *frame, a []value) value {
			if a[0].(bool) {
				pkg := fr.i.prog.ImportedPackage("errors")
				fr.i.side["nats-publish-error"] = call(fr.i, fr, token.NoPos, pkg.Func("New"), []value{"nats: maximum payload exceeded"})
			} else {
				fr.i.side["nats-publish-error"] = nil
			}
			return nil
		},

		// timers
		"time.AfterFunc": func(fr *frame, a []value) value {
			T := fr.i.prog.ImportedPackage("time").Type("Timer").Object().Type()
			var cell value = zero(T)
			p := &cell
			fr.i.side[fmt.Sprintf("timer:%p", p)] = &vtimer{fn: a[1], armed: true}
			lst, _ := fr.i.side["timers"].([]value)
			fr.i.side["timers"] = append(lst, p)
			return p
		},
		"(*time.Timer).Stop": func(fr *frame, a []value) value {
			t, ok := fr.i.side[fmt.Sprintf("timer:%p", a[0].(*value))].(*vtimer)
			if !ok {
				return false
			}
			was := t.armed
			t.armed = false
			return was
		},
		zz + "ArmedTimers": func(fr *frame, a []value) value {
			lst, _ := fr.i.side["timers"].([]value)
			n := 0
			for _, p := range lst {
				if t := fr.i.side[fmt.Sprintf("timer:%p", p.(*value))].(*vtimer); t.armed {
					n++
				}
			}
			return n
		},
		zz + "FireTimer": func(fr *frame, a []value) value {
			// fires the k-th armed timer
			k := int(asInt64(a[0]))
			lst, _ := fr.i.side["timers"].([]value)
			for _, p := range lst {
				t := fr.i.side[fmt.Sprintf("timer:%p", p.(*value))].(*vtimer)
				if !t.armed {
					continue
				}
				if k == 0 {
					t.armed = false
					call(fr.i, fr, token.NoPos, t.fn, nil)
					return true
				}
				k--
			}
			return false
		},
	} {
		externals[k] = v
	}
}
