package interp

import (
	"fmt"
	"go/token"
	"runtime"
	"strings"

	"golang.org/x/tools/go/ssa"
)

// Result of exploring one harness instance.
type Result struct {
	Harness      string
	Params       map[string]int
	Stats        Stats
	Violations   []Violation
	Exhaustive   bool
	Inconclusive []string
	Queries      int
	SolverTimeS  float64
	SolverErrors []string
	KnownCount   int
	knownSeen    map[string]int
}

// RunHarness explores all paths of fn (a niladic harness function).
func RunHarness(prog *ssa.Program, fn *ssa.Function, x *Explorer, params map[string]int, maxViolations int) *Result {
	return RunHarnessK(prog, fn, x, params, maxViolations, nil)
}

// RunHarnessK is RunHarness with a classifier for known findings: violations
// it accepts are counted (KnownCount) and a few kept, but do not stop the
// exploration.
func RunHarnessK(prog *ssa.Program, fn *ssa.Function, x *Explorer, params map[string]int, maxViolations int, isKnown func(*Violation) bool) *Result {
	x.Harness = fn.Name()
	x.Params = params
	res := &Result{Harness: fn.Name(), Params: params, Exhaustive: true}
	x.IsKnown = isKnown
	unknown := 0
	for {
		x.beginPath()
		it := newInterpreter(prog, x)
		end, msg := runPath(it, fn)
		x.endPath()
		if end == EndSplit {
			if !x.backtrack() {
				break
			}
			continue
		}
		x.Stats.Paths++
		if x.pos > x.Stats.MaxDepth {
			x.Stats.MaxDepth = x.pos
		}
		x.Stats.Instrs += x.instrs
		if x.symbolic && len(x.asserts) > 0 {
			x.Stats.PathsNonTriv++
		}
		switch end {
		case EndPruned:
			x.Stats.Pruned++
		case EndInconclusive, EndBlocked:
			x.noteInconclusive(msg)
		}
		for _, n := range it.initNotes {
			x.Stats.Assumptions[n] = true
		}
		if len(x.Stats.Samples) < 6 || (end == EndViolation && len(x.Stats.Samples) < 12) {
			x.Stats.Samples = append(x.Stats.Samples, x.sample(end, msg))
		}
		if end == EndViolation && len(x.Violations) > 0 {
			v := &x.Violations[len(x.Violations)-1]
			if v.Known {
				// (already classified when the path continued past it)
			} else if isKnown != nil && isKnown(v) {
				v.Known = true
				res.KnownCount++
				key := v.AssertID + "|" + strings.Join(v.Tags, ",")
				if res.knownSeen == nil {
					res.knownSeen = map[string]int{}
				}
				res.knownSeen[key]++
				if res.knownSeen[key] > 2 {
					x.Violations = x.Violations[:len(x.Violations)-1]
				}
			} else {
				unknown++
			}
		}
		if unknown >= maxViolations && maxViolations > 0 {
			res.Exhaustive = false
			break
		}
		if !x.backtrack() {
			break
		}
		if x.Stats.Paths >= x.MaxPaths {
			x.noteInconclusive(fmt.Sprintf("path budget (%d) exhausted", x.MaxPaths))
			res.Exhaustive = false
			break
		}
	}
	res.KnownCount += x.KnownContinued
	res.Stats = x.Stats
	res.Violations = x.Violations
	res.Inconclusive = x.Stats.Inconclusive
	if len(res.Inconclusive) > 0 {
		res.Exhaustive = false
	}
	res.Queries = x.solver.Queries
	res.SolverTimeS = x.solver.Time.Seconds()
	res.SolverErrors = x.solver.Errors
	if len(res.SolverErrors) > 0 {
		res.Exhaustive = false
		res.Inconclusive = append(res.Inconclusive, "solver errors: "+strings.Join(res.SolverErrors[:min2(3, len(res.SolverErrors))], "; "))
	}
	return res
}

func min2(a, b int) int {
	if a < b {
		return a
	}
	return b
}

func (x *Explorer) sample(end PathEnd, msg string) PathSample {
	var sb strings.Builder
	for i := 0; i < x.pos && i < 60; i++ {
		d := x.trail[i]
		fmt.Fprintf(&sb, "%c%d ", d.kind, d.val)
	}
	s := PathSample{Decisions: strings.TrimSpace(sb.String()), Asserts: x.asserts, Tags: x.tags}
	for _, in := range x.inputs {
		if len(s.Inputs) < 24 {
			s.Inputs = append(s.Inputs, fmt.Sprintf("%s:bv%d", in.Name, in.W))
		}
	}
	switch end {
	case EndOK:
		s.End = "ok"
	case EndPruned:
		s.End = "pruned: " + msg
	case EndViolation:
		s.End = "VIOLATION: " + msg
	case EndInconclusive:
		s.End = "inconclusive: " + msg
	case EndBlocked:
		s.End = "blocked: " + msg
	}
	return s
}

func panicText(r interface{}) string {
	switch r := r.(type) {
	case targetPanic:
		return "panic: " + toString(r.v)
	case runtime.Error:
		return "panic: " + r.Error()
	case runtimePanic:
		return "panic: " + r.Error()
	case string:
		return "panic: " + r
	case error:
		return "panic: " + r.Error()
	}
	return fmt.Sprintf("panic: %v", r)
}

// runPath executes the harness once under the current decision prefix.
func runPath(it *interpreter, fn *ssa.Function) (end PathEnd, msg string) {
	x := it.x
	defer func() {
		r := recover()
		if r == nil {
			return
		}
		switch r := r.(type) {
		case pathAbort:
			end, msg = r.end, r.msg
		case blockedPanic:
			end, msg = EndBlocked, "blocked forever: "+r.what
		case engineError:
			end, msg = EndInconclusive, r.Error()+" [in "+strings.Join(it.panicStack, " <- ")+"]"
		default:
			txt := panicText(r)
			x.notes = append(x.notes, "target-stack: "+strings.Join(it.panicStack, " <- "))
			if _, isRT := r.(runtime.Error); isRT {
				// may be an engine bug; keep the Go stack head for triage
				buf := make([]byte, 2048)
				n := runtime.Stack(buf, false)
				x.notes = append(x.notes, "go-stack: "+firstLines(string(buf[:n]), 14))
			}
			if x.expectPanic != "" {
				end, msg = EndOK, "expected "+txt
				x.Stats.Reached["expected-panic:"+x.expectPanic]++
				return
			}
			// unexpected panic in target code on a feasible path
			x.Stats.Obligations++
			x.modelValid = false
			func() {
				defer func() {
					if rr := recover(); rr != nil {
						end, msg = EndInconclusive, "no model for panic path: "+txt
					}
				}()
				if !x.ensureModel() {
					end, msg = EndInconclusive, "solver unknown on panic path: "+txt
					return
				}
				x.recordViolation("panic", "no-panic", txt, x.model)
				end, msg = EndViolation, txt
			}()
		}
	}()
	call(it, nil, token.NoPos, fn, nil)
	// crash freedom obligation of the path
	x.Stats.Obligations++
	x.Stats.Discharged++
	return EndOK, ""
}

func firstLines(s string, n int) string {
	lines := strings.Split(s, "\n")
	if len(lines) > n {
		lines = lines[:n]
	}
	return strings.Join(lines, " | ")
}

// NewRuntimeCheck makes sure the explorer type is usable from other packages.
func (x *Explorer) SetBudgets(paths int, instrs int64, depth int) {
	if paths > 0 {
		x.MaxPaths = paths
	}
	if instrs > 0 {
		x.MaxInstrs = instrs
	}
	if depth > 0 {
		x.MaxDepth = depth
	}
}
