package interp

// Symbolic scalars: integers of every Go width as fixed-width bit-vectors and
// booleans. A symbolic value carries a pointer to its exploration context so
// that the (context-free) operator functions of the interpreter can build
// terms and take decisions.

import (
	"fmt"
	"go/token"
	"go/types"

	"vf/smt"
)

type symInt struct {
	t *smt.Term
	k types.BasicKind // Int, Int8.., Uint.., Uintptr
	x *Explorer
}

type symBool struct {
	t *smt.Term
	x *Explorer
}

func kindWidth(k types.BasicKind) int {
	switch k {
	case types.Int8, types.Uint8:
		return 8
	case types.Int16, types.Uint16:
		return 16
	case types.Int32, types.Uint32:
		return 32
	case types.Int, types.Int64, types.Uint, types.Uint64, types.Uintptr:
		return 64
	}
	panic(engineError(fmt.Sprintf("kindWidth: not an integer kind %v", k)))
}

func kindSigned(k types.BasicKind) bool {
	switch k {
	case types.Int, types.Int8, types.Int16, types.Int32, types.Int64:
		return true
	}
	return false
}

// intKind returns the basic kind of a concrete integer value.
func intKind(v value) (types.BasicKind, bool) {
	switch v.(type) {
	case int:
		return types.Int, true
	case int8:
		return types.Int8, true
	case int16:
		return types.Int16, true
	case int32:
		return types.Int32, true
	case int64:
		return types.Int64, true
	case uint:
		return types.Uint, true
	case uint8:
		return types.Uint8, true
	case uint16:
		return types.Uint16, true
	case uint32:
		return types.Uint32, true
	case uint64:
		return types.Uint64, true
	case uintptr:
		return types.Uintptr, true
	}
	return 0, false
}

// mkInt builds the concrete Go value of kind k with the given bits.
func mkInt(k types.BasicKind, bits uint64) value {
	switch k {
	case types.Int:
		return int(bits)
	case types.Int8:
		return int8(bits)
	case types.Int16:
		return int16(bits)
	case types.Int32:
		return int32(bits)
	case types.Int64:
		return int64(bits)
	case types.Uint:
		return uint(bits)
	case types.Uint8:
		return uint8(bits)
	case types.Uint16:
		return uint16(bits)
	case types.Uint32:
		return uint32(bits)
	case types.Uint64:
		return uint64(bits)
	case types.Uintptr:
		return uintptr(bits)
	}
	panic(engineError(fmt.Sprintf("mkInt: bad kind %v", k)))
}

func isSym(v value) bool {
	switch v.(type) {
	case symInt, symBool:
		return true
	}
	return false
}

func explorerOf(vs ...value) *Explorer {
	for _, v := range vs {
		switch v := v.(type) {
		case symInt:
			return v.x
		case symBool:
			return v.x
		case *sstr:
			return v.x
		}
	}
	return nil
}

// intTerm converts an integer value (concrete or symbolic) to a term.
func intTerm(x *Explorer, v value) (*smt.Term, types.BasicKind) {
	if s, ok := v.(symInt); ok {
		return s.t, s.k
	}
	k, ok := intKind(v)
	if !ok {
		panic(engineError(fmt.Sprintf("intTerm: not an integer: %T", v)))
	}
	return x.ctx.BV(uint64(asInt64(v)), kindWidth(k)), k
}

func boolTerm(x *Explorer, v value) *smt.Term {
	switch v := v.(type) {
	case bool:
		return x.ctx.Bool(v)
	case symBool:
		return v.t
	}
	panic(engineError(fmt.Sprintf("boolTerm: not a bool: %T", v)))
}

// wrapInt returns a concrete value when t is constant, otherwise a symInt.
func wrapInt(x *Explorer, t *smt.Term, k types.BasicKind) value {
	if t.IsConst() {
		v := t.Val
		if kindSigned(k) {
			w := kindWidth(k)
			if w < 64 {
				sh := uint(64 - w)
				v = uint64(int64(v<<sh) >> sh)
			}
		}
		return mkInt(k, v)
	}
	return symInt{t: t, k: k, x: x}
}

func wrapBool(x *Explorer, t *smt.Term) value {
	if t.IsConst() {
		return t.Val == 1
	}
	return symBool{t: t, x: x}
}

// symBinop implements binop when at least one operand is symbolic.
func symBinop(op token.Token, t types.Type, xv, yv value) value {
	x := explorerOf(xv, yv)
	c := x.ctx
	// booleans: only == and != reach here (&& and || are control flow in SSA)
	if _, ok := xv.(symBool); ok || isBoolVal(yv) && isBoolVal(xv) {
		a, b := boolTerm(x, xv), boolTerm(x, yv)
		switch op {
		case token.EQL:
			return wrapBool(x, c.Eq(a, b))
		case token.NEQ:
			return wrapBool(x, c.Not(c.Eq(a, b)))
		case token.AND:
			return wrapBool(x, c.And(a, b))
		case token.OR:
			return wrapBool(x, c.Or(a, b))
		}
		panic(engineError("symBinop: unsupported boolean op " + op.String()))
	}
	if _, ok := yv.(symBool); ok {
		return symBinop(op, t, yv, xv)
	}
	a, k := intTerm(x, xv)
	signed := kindSigned(k)
	if op == token.SHL || op == token.SHR {
		b, kb := intTerm(x, yv)
		if kindSigned(kb) {
			if x.decide(c.Cmp("bvslt", b, c.BV(0, b.W))) {
				panic(runtimePanic("negative shift amount"))
			}
		}
		// bring the count to the width of x (saturating for wide counts)
		var cnt *smt.Term
		if b.W > a.W {
			big := c.Not(c.Cmp("bvult", b, c.BV(uint64(a.W), b.W)))
			cnt = c.Ite(big, c.BV(uint64(a.W), a.W), c.Extract(b, a.W-1, 0))
		} else {
			cnt = c.ZeroExt(b, a.W)
		}
		switch {
		case op == token.SHL:
			return wrapInt(x, c.Bin("bvshl", a, cnt), k)
		case signed:
			return wrapInt(x, c.Bin("bvashr", a, cnt), k)
		default:
			return wrapInt(x, c.Bin("bvlshr", a, cnt), k)
		}
	}
	b, kb := intTerm(x, yv)
	if a.W != b.W {
		panic(engineError(fmt.Sprintf("symBinop %s: width mismatch %v vs %v", op, k, kb)))
	}
	cmp := func(sop, uop string, p, q *smt.Term) value {
		if signed {
			return wrapBool(x, c.Cmp(sop, p, q))
		}
		return wrapBool(x, c.Cmp(uop, p, q))
	}
	switch op {
	case token.ADD:
		return wrapInt(x, c.Bin("bvadd", a, b), k)
	case token.SUB:
		return wrapInt(x, c.Bin("bvsub", a, b), k)
	case token.MUL:
		return wrapInt(x, c.Bin("bvmul", a, b), k)
	case token.QUO, token.REM:
		if x.decide(c.Eq(b, c.BV(0, b.W))) {
			panic(runtimePanic("integer divide by zero"))
		}
		var o string
		switch {
		case op == token.QUO && signed:
			o = "bvsdiv"
		case op == token.QUO:
			o = "bvudiv"
		case signed:
			o = "bvsrem"
		default:
			o = "bvurem"
		}
		return wrapInt(x, c.Bin(o, a, b), k)
	case token.AND:
		return wrapInt(x, c.Bin("bvand", a, b), k)
	case token.OR:
		return wrapInt(x, c.Bin("bvor", a, b), k)
	case token.XOR:
		return wrapInt(x, c.Bin("bvxor", a, b), k)
	case token.AND_NOT:
		return wrapInt(x, c.Bin("bvand", a, c.BvNot(b)), k)
	case token.EQL:
		return wrapBool(x, c.Eq(a, b))
	case token.NEQ:
		return wrapBool(x, c.Not(c.Eq(a, b)))
	case token.LSS:
		return cmp("bvslt", "bvult", a, b)
	case token.LEQ:
		return cmp("bvsle", "bvule", a, b)
	case token.GTR:
		return cmp("bvslt", "bvult", b, a)
	case token.GEQ:
		return cmp("bvsle", "bvule", b, a)
	}
	panic(engineError("symBinop: unsupported op " + op.String()))
}

func isBoolVal(v value) bool {
	switch v.(type) {
	case bool, symBool:
		return true
	}
	return false
}

func symUnop(op token.Token, xv value) value {
	switch v := xv.(type) {
	case symBool:
		if op == token.NOT {
			return wrapBool(v.x, v.x.ctx.Not(v.t))
		}
	case symInt:
		switch op {
		case token.SUB:
			return wrapInt(v.x, v.x.ctx.BvNeg(v.t), v.k)
		case token.XOR:
			return wrapInt(v.x, v.x.ctx.BvNot(v.t), v.k)
		}
	}
	panic(engineError(fmt.Sprintf("symUnop: unsupported %s %T", op, xv)))
}

// symConvInt converts a symbolic integer to another integer kind.
func symConvInt(v symInt, dst types.BasicKind) value {
	w := kindWidth(dst)
	return wrapInt(v.x, v.x.ctx.Resize(v.t, w, kindSigned(v.k)), dst)
}

// concreteInt forces an integer value to a concrete int64, forking over the
// feasible values when it is symbolic (bounded by lo..hi inclusive when
// hi>=lo; values outside are left to the caller's bounds check by returning
// ok=false on a separate path).
func concreteInt(v value, what string) int64 {
	if s, ok := v.(symInt); ok {
		return s.x.concretize(s, what)
	}
	return asInt64(v)
}

// truth forces a boolean to a concrete value, forking if symbolic.
func truth(v value) bool {
	switch v := v.(type) {
	case bool:
		return v
	case symBool:
		return v.x.decide(v.t)
	}
	panic(engineError(fmt.Sprintf("truth: not a bool: %T", v)))
}

// engineError is raised (as a panic) for anything the engine does not
// support; such a path is INCONCLUSIVE, never a violation.
type engineError string

func (e engineError) Error() string { return "engine: " + string(e) }

// runtimePanic models a Go runtime panic in target code raised by the engine
// itself (divide by zero, symbolic index out of range ...).
type runtimePanic string

func (e runtimePanic) Error() string { return "runtime error: " + string(e) }
