package interp

// Best-effort models of fmt.Sprintf / Errorf / Sprint: formatting has no
// effect on control flow in the code under test; the produced text is only
// compared by harnesses where it is built from concrete parts.

import (
	"fmt"
	"go/token"
	"go/types"
	"strings"
)

func (i *interpreter) displayArg(fr *frame, a value, verb byte) string {
	itf, ok := a.(iface)
	if !ok {
		return toString(a)
	}
	if itf.t == nil {
		return "<nil>"
	}
	if verb != 'd' && verb != 'x' && verb != 'c' {
		if _, isIface := itf.t.Underlying().(*types.Interface); !isIface {
			if fn := i.findMethod(itf.t, "Error"); fn != nil && fn.Signature.Params().Len() == 0 {
				if p, isPtr := itf.v.(*value); !(isPtr && p == nil) {
					return concreteStr(call(i, fr, token.NoPos, fn, []value{itf.v}))
				}
			}
			if fn := i.findMethod(itf.t, "String"); fn != nil && fn.Signature.Params().Len() == 0 && fn.Signature.Results().Len() == 1 {
				if p, isPtr := itf.v.(*value); !(isPtr && p == nil) {
					return concreteStr(call(i, fr, token.NoPos, fn, []value{itf.v}))
				}
			}
		}
	}
	switch v := itf.v.(type) {
	case string, *sstr:
		s := concreteStr(v)
		if verb == 'q' {
			return fmt.Sprintf("%q", s)
		}
		return s
	case []value:
		if sl, ok := itf.t.Underlying().(*types.Slice); ok {
			if b, ok := sl.Elem().Underlying().(*types.Basic); ok && b.Kind() == types.Uint8 {
				var sb strings.Builder
				for _, e := range v {
					if c, ok := e.(uint8); ok {
						sb.WriteByte(c)
					} else {
						sb.WriteByte('?')
					}
				}
				return sb.String()
			}
		}
		return toString(v)
	case symInt:
		return "<sym>"
	case bool:
		return fmt.Sprintf("%t", v)
	}
	if _, ok := intKind(itf.v); ok {
		n := asInt64(itf.v)
		switch verb {
		case 'x':
			return fmt.Sprintf("%x", n)
		case 'c':
			return string(rune(n))
		}
		return fmt.Sprintf("%d", n)
	}
	return toString(itf.v)
}

func (i *interpreter) sprintf(fr *frame, format string, args []value) string {
	var sb strings.Builder
	ai := 0
	for k := 0; k < len(format); k++ {
		c := format[k]
		if c != '%' {
			sb.WriteByte(c)
			continue
		}
		k++
		if k >= len(format) {
			sb.WriteString("%!(NOVERB)")
			break
		}
		// skip flags / width
		for k < len(format) && strings.IndexByte("+-# 0123456789.", format[k]) >= 0 {
			k++
		}
		if k >= len(format) {
			break
		}
		verb := format[k]
		if verb == '%' {
			sb.WriteByte('%')
			continue
		}
		if ai >= len(args) {
			sb.WriteString("%!" + string(verb) + "(MISSING)")
			continue
		}
		sb.WriteString(i.displayArg(fr, args[ai], verb))
		ai++
	}
	return sb.String()
}

func extSprintf(fr *frame, a []value) value {
	args, _ := a[1].([]value)
	return fr.i.sprintf(fr, concreteStr(a[0]), args)
}

func extErrorf(fr *frame, a []value) value {
	args, _ := a[1].([]value)
	msg := fr.i.sprintf(fr, concreteStr(a[0]), args)
	pkg := fr.i.prog.ImportedPackage("errors")
	return call(fr.i, fr, token.NoPos, pkg.Func("New"), []value{msg})
}

func extSprint(fr *frame, a []value) value {
	args, _ := a[0].([]value)
	var sb strings.Builder
	for _, x := range args {
		sb.WriteString(fr.i.displayArg(fr, x, 'v'))
	}
	return sb.String()
}

func init() {
	externals["fmt.Sprintf"] = extSprintf
	externals["fmt.Errorf"] = extErrorf
	externals["fmt.Sprint"] = extSprint
	externals["fmt.Println"] = func(fr *frame, a []value) value { return tuple{0, nilError} }
	externals["fmt.Printf"] = func(fr *frame, a []value) value { return tuple{0, nilError} }
}
