package interp

// Strings with concrete length and (possibly) symbolic bytes.

import (
	"fmt"
	"go/token"
	"go/types"

	"vf/smt"
)

// sstr is a string at least one of whose bytes is symbolic. Elements are
// uint8 or symInt(Uint8). A string whose bytes are all concrete is always
// collapsed to an ordinary Go string (see mkStr).
type sstr struct {
	b []value
	x *Explorer
}

func mkStr(x *Explorer, b []value) value {
	allc := true
	for _, e := range b {
		if _, ok := e.(uint8); !ok {
			allc = false
			break
		}
	}
	if allc {
		buf := make([]byte, len(b))
		for i, e := range b {
			buf[i] = e.(uint8)
		}
		return string(buf)
	}
	cp := make([]value, len(b))
	copy(cp, b)
	return &sstr{b: cp, x: x}
}

func strBytes(v value) []value {
	switch v := v.(type) {
	case string:
		out := make([]value, len(v))
		for i := 0; i < len(v); i++ {
			out[i] = v[i]
		}
		return out
	case *sstr:
		return v.b
	}
	panic(engineError(fmt.Sprintf("strBytes: not a string: %T", v)))
}

func strLen(v value) int {
	switch v := v.(type) {
	case string:
		return len(v)
	case *sstr:
		return len(v.b)
	}
	panic(engineError(fmt.Sprintf("strLen: not a string: %T", v)))
}

func isStr(v value) bool {
	switch v.(type) {
	case string, *sstr:
		return true
	}
	return false
}

func byteTerm(x *Explorer, v value) *smt.Term {
	switch v := v.(type) {
	case uint8:
		return x.ctx.BV(uint64(v), 8)
	case symInt:
		return v.t
	}
	panic(engineError(fmt.Sprintf("byteTerm: %T", v)))
}

// strEqTerm returns the term for a == b (byte strings of concrete lengths).
func bytesEqTerm(x *Explorer, a, b []value) *smt.Term {
	c := x.ctx
	if len(a) != len(b) {
		return c.False
	}
	r := c.True
	for i := range a {
		r = c.And(r, c.Eq(byteTerm(x, a[i]), byteTerm(x, b[i])))
		if r == c.False {
			return r
		}
	}
	return r
}

// bytesLessTerm returns the term for a < b in lexicographic byte order.
func bytesLessTerm(x *Explorer, a, b []value) *smt.Term {
	c := x.ctx
	// less(i) = i>=len(b) ? false : i>=len(a) ? true : a[i]<b[i] || (a[i]==b[i] && less(i+1))
	n := len(a)
	if len(b) < n {
		n = len(b)
	}
	var r *smt.Term
	if len(a) < len(b) {
		r = c.True
	} else {
		r = c.False
	}
	for i := n - 1; i >= 0; i-- {
		ai, bi := byteTerm(x, a[i]), byteTerm(x, b[i])
		r = c.Or(c.Cmp("bvult", ai, bi), c.And(c.Eq(ai, bi), r))
	}
	return r
}

func symStrBinop(op token.Token, xv, yv value) value {
	x := explorerOf(xv, yv)
	a, b := strBytes(xv), strBytes(yv)
	c := x.ctx
	switch op {
	case token.ADD:
		out := make([]value, 0, len(a)+len(b))
		out = append(out, a...)
		out = append(out, b...)
		return mkStr(x, out)
	case token.EQL:
		return wrapBool(x, bytesEqTerm(x, a, b))
	case token.NEQ:
		return wrapBool(x, c.Not(bytesEqTerm(x, a, b)))
	case token.LSS:
		return wrapBool(x, bytesLessTerm(x, a, b))
	case token.GTR:
		return wrapBool(x, bytesLessTerm(x, b, a))
	case token.LEQ:
		return wrapBool(x, c.Not(bytesLessTerm(x, b, a)))
	case token.GEQ:
		return wrapBool(x, c.Not(bytesLessTerm(x, a, b)))
	}
	panic(engineError("symStrBinop: unsupported op " + op.String()))
}

// indexSym selects element idx (symbolic) of a sequence of scalar values,
// after a bounds decision. Elements must be integers or booleans.
func indexSym(x *Explorer, elems []value, idx symInt) value {
	c := x.ctx
	n := len(elems)
	w := idx.t.W
	var inb *smt.Term
	if kindSigned(idx.k) {
		inb = c.And(c.Cmp("bvsle", c.BV(0, w), idx.t), c.Cmp("bvslt", idx.t, c.BV(uint64(n), w)))
	} else {
		inb = c.Cmp("bvult", idx.t, c.BV(uint64(n), w))
	}
	if !x.decide(inb) {
		panic(runtimePanic("index out of range (symbolic index)"))
	}
	if n == 0 {
		panic(runtimePanic("index out of range"))
	}
	// all elements must be scalars of one kind
	switch elems[0].(type) {
	case bool, symBool:
		r := boolTerm(x, elems[n-1])
		for i := n - 2; i >= 0; i-- {
			r = c.Ite(c.Eq(idx.t, c.BV(uint64(i), w)), boolTerm(x, elems[i]), r)
		}
		return wrapBool(x, r)
	}
	var k types.BasicKind
	if s, ok := elems[0].(symInt); ok {
		k = s.k
	} else if kk, ok := intKind(elems[0]); ok {
		k = kk
	} else {
		// non-scalar elements: enumerate the index
		i := x.concretize(idx, "index")
		return elems[i]
	}
	terms := make([]*smt.Term, n)
	for i, e := range elems {
		t, _ := intTerm(x, e)
		terms[i] = t
	}
	// group runs of identical terms to keep table lookups small
	r := terms[n-1]
	i := n - 2
	for i >= 0 {
		j := i
		for j > 0 && terms[j-1] == terms[i] {
			j--
		}
		if terms[i] != r {
			var cond *smt.Term
			if j == i {
				cond = c.Eq(idx.t, c.BV(uint64(i), w))
			} else if kindSigned(idx.k) {
				cond = c.And(c.Cmp("bvsle", c.BV(uint64(j), w), idx.t), c.Cmp("bvsle", idx.t, c.BV(uint64(i), w)))
			} else {
				cond = c.And(c.Cmp("bvule", c.BV(uint64(j), w), idx.t), c.Cmp("bvule", idx.t, c.BV(uint64(i), w)))
			}
			r = c.Ite(cond, terms[i], r)
		}
		i = j - 1
	}
	return wrapInt(x, r, k)
}

// ---- range over a string with symbolic bytes: exact UTF-8 decoding with
// decisions on the byte classes.

type sstrIter struct {
	s *sstr
	i int
}

func (it *sstrIter) next() tuple {
	if it.i >= len(it.s.b) {
		return tuple{false, nil, nil}
	}
	r, n := decodeRuneSym(it.s.x, it.s.b[it.i:])
	res := tuple{true, it.i, r}
	it.i += n
	return res
}

// decodeRuneSym decodes the first rune of b (non-empty) following
// unicode/utf8.DecodeRune exactly; the returned rune is int32 or symInt.
func decodeRuneSym(x *Explorer, b []value) (value, int) {
	c := x.ctx
	b0 := byteTerm(x, b[0])
	k8 := func(v uint64) *smt.Term { return c.BV(v, 8) }
	inRange := func(t *smt.Term, lo, hi uint64) *smt.Term {
		return c.And(c.Cmp("bvule", k8(lo), t), c.Cmp("bvule", t, k8(hi)))
	}
	runeErr := int32(0xFFFD)
	z32 := func(t *smt.Term) *smt.Term { return c.ZeroExt(t, 32) }
	if x.decide(c.Cmp("bvult", b0, k8(0x80))) {
		return wrapInt(x, z32(b0), types.Int32), 1
	}
	// 2-byte: C2..DF
	if x.decide(inRange(b0, 0xC2, 0xDF)) {
		if len(b) < 2 {
			return runeErr, 1
		}
		b1 := byteTerm(x, b[1])
		if !x.decide(inRange(b1, 0x80, 0xBF)) {
			return runeErr, 1
		}
		r := c.Bin("bvor",
			c.Bin("bvshl", c.Bin("bvand", z32(b0), c.BV(0x1F, 32)), c.BV(6, 32)),
			c.Bin("bvand", z32(b1), c.BV(0x3F, 32)))
		return wrapInt(x, r, types.Int32), 2
	}
	// 3-byte: E0..EF
	if x.decide(inRange(b0, 0xE0, 0xEF)) {
		if len(b) < 2 {
			return runeErr, 1
		}
		b1 := byteTerm(x, b[1])
		lo := c.Ite(c.Eq(b0, k8(0xE0)), k8(0xA0), k8(0x80))
		hi := c.Ite(c.Eq(b0, k8(0xED)), k8(0x9F), k8(0xBF))
		if !x.decide(c.And(c.Cmp("bvule", lo, b1), c.Cmp("bvule", b1, hi))) {
			return runeErr, 1
		}
		if len(b) < 3 {
			return runeErr, 1
		}
		b2 := byteTerm(x, b[2])
		if !x.decide(inRange(b2, 0x80, 0xBF)) {
			return runeErr, 1
		}
		r := c.Bin("bvor", c.Bin("bvor",
			c.Bin("bvshl", c.Bin("bvand", z32(b0), c.BV(0x0F, 32)), c.BV(12, 32)),
			c.Bin("bvshl", c.Bin("bvand", z32(b1), c.BV(0x3F, 32)), c.BV(6, 32))),
			c.Bin("bvand", z32(b2), c.BV(0x3F, 32)))
		return wrapInt(x, r, types.Int32), 3
	}
	// 4-byte: F0..F4
	if x.decide(inRange(b0, 0xF0, 0xF4)) {
		if len(b) < 2 {
			return runeErr, 1
		}
		b1 := byteTerm(x, b[1])
		lo := c.Ite(c.Eq(b0, k8(0xF0)), k8(0x90), k8(0x80))
		hi := c.Ite(c.Eq(b0, k8(0xF4)), k8(0x8F), k8(0xBF))
		if !x.decide(c.And(c.Cmp("bvule", lo, b1), c.Cmp("bvule", b1, hi))) {
			return runeErr, 1
		}
		if len(b) < 3 {
			return runeErr, 1
		}
		b2 := byteTerm(x, b[2])
		if !x.decide(inRange(b2, 0x80, 0xBF)) {
			return runeErr, 1
		}
		if len(b) < 4 {
			return runeErr, 1
		}
		b3 := byteTerm(x, b[3])
		if !x.decide(inRange(b3, 0x80, 0xBF)) {
			return runeErr, 1
		}
		r := c.Bin("bvor", c.Bin("bvor", c.Bin("bvor",
			c.Bin("bvshl", c.Bin("bvand", z32(b0), c.BV(0x07, 32)), c.BV(18, 32)),
			c.Bin("bvshl", c.Bin("bvand", z32(b1), c.BV(0x3F, 32)), c.BV(12, 32))),
			c.Bin("bvshl", c.Bin("bvand", z32(b2), c.BV(0x3F, 32)), c.BV(6, 32))),
			c.Bin("bvand", z32(b3), c.BV(0x3F, 32)))
		return wrapInt(x, r, types.Int32), 4
	}
	return runeErr, 1
}
