package interp

// Externals: functions replaced by engine models ("stubs"). Every entry is
// part of the claim and is counted in evidence when used. Keys are
// ssa.Function.String().

import (
	"fmt"
	"go/token"
	"go/types"
	"os"
	"strings"

	"golang.org/x/tools/go/ssa"
)

type externalFn func(fr *frame, args []value) value

var externals = map[string]externalFn{}

const zz = "github.com/resgateio/resgate/zzvf."

func init() {
	for k, v := range map[string]externalFn{
		// ---- harness vocabulary
		zz + "Symbolic": func(fr *frame, a []value) value { return true },
		zz + "Param":    extParam,
		zz + "ParamOr": func(fr *frame, a []value) value {
			if v, ok := fr.i.x.Params[a[0].(string)]; ok {
				return v
			}
			return a[1]
		},
		zz + "Int":             func(fr *frame, a []value) value { return extInput(fr, a, types.Int) },
		zz + "Int64":           func(fr *frame, a []value) value { return extInput(fr, a, types.Int64) },
		zz + "Int32":           func(fr *frame, a []value) value { return extInput(fr, a, types.Int32) },
		zz + "Uint":            func(fr *frame, a []value) value { return extInput(fr, a, types.Uint) },
		zz + "Uint64":          func(fr *frame, a []value) value { return extInput(fr, a, types.Uint64) },
		zz + "Byte":            func(fr *frame, a []value) value { return extInput(fr, a, types.Uint8) },
		zz + "Bool":            extBool,
		zz + "Str":             extStr,
		zz + "Bytes":           extBytes,
		zz + "Choose":          extChoose,
		zz + "Assume":          func(fr *frame, a []value) value { fr.i.x.assume(a[0]); return nil },
		zz + "Assert":          func(fr *frame, a []value) value { fr.i.x.assert(a[0], a[1].(string)); return nil },
		zz + "Reach":           func(fr *frame, a []value) value { fr.i.x.Stats.Reached[a[0].(string)]++; return nil },
		zz + "Tag":             extTag,
		zz + "Note":            func(fr *frame, a []value) value { fr.i.x.notes = append(fr.i.x.notes, concreteStr(a[0])); return nil },
		zz + "ExpectPanic":     func(fr *frame, a []value) value { fr.i.x.expectPanic = a[0].(string); return nil },
		zz + "ContinueAfterKnown": func(fr *frame, a []value) value { fr.i.x.continueKnown = a[0].(bool); return nil },
		zz + "MapOrder":        func(fr *frame, a []value) value { fr.i.x.mapReverse = a[0].(bool); return nil },
		zz + "Register":        func(fr *frame, a []value) value { return nil },
		zz + "RunUntilBlocked": extRunUntilBlocked,
		zz + "OnBlock": func(fr *frame, a []value) value {
			fr.i.onBlock = a[0]
			if f, ok := a[0].(*ssa.Function); ok && f == nil {
				fr.i.onBlock = nil
			}
			return nil
		},
		zz + "Spawned":         func(fr *frame, a []value) value { return len(fr.i.spawned) },
		zz + "RunSpawned":      extRunSpawned,
		zz + "Settle":          extSettle,
		zz + "Ite":             extIte,
		zz + "IsConcrete":      func(fr *frame, a []value) value { return !isSym(a[0].(iface).v) },
		zz + "And":             func(fr *frame, a []value) value { return andV(a[0], a[1]) },
		zz + "Or":              func(fr *frame, a []value) value { return notV(andV(notV(a[0]), notV(a[1]))) },
		zz + "Not":             func(fr *frame, a []value) value { return notV(a[0]) },
		zz + "Implies":         func(fr *frame, a []value) value { return notV(andV(a[0], notV(a[1]))) },
		zz + "Iff":             func(fr *frame, a []value) value { return equalsV(types.Typ[types.Bool], a[0], a[1]) },
		zz + "StrEq":           func(fr *frame, a []value) value { return equalsV(types.Typ[types.String], a[0], a[1]) },
		zz + "BytesEq":         extBytesEqual,

		// ---- sync
		"(*sync.Mutex).Lock":      extMutexLock,
		"(*sync.Mutex).Unlock":    extMutexUnlock,
		"(*sync.Mutex).TryLock":   extMutexTryLock,
		"(*sync.RWMutex).Lock":    extMutexLock,
		"(*sync.RWMutex).Unlock":  extMutexUnlock,
		"(*sync.RWMutex).RLock":   extMutexLock,
		"(*sync.RWMutex).RUnlock": extMutexUnlock,
		// WaitGroup: a counter; Wait lets the other actors run (OnBlock) and
		// blocks while the counter is positive
		"(*sync.WaitGroup).Add": func(fr *frame, a []value) value {
			key := fmt.Sprintf("wg:%p", a[0].(*value))
			n, _ := fr.i.side[key].(int)
			n += int(asInt64(a[1]))
			if n < 0 {
				panic(targetPanic{iface{t: types.Typ[types.String], v: "sync: negative WaitGroup counter"}})
			}
			fr.i.side[key] = n
			return nil
		},
		"(*sync.WaitGroup).Done": func(fr *frame, a []value) value {
			key := fmt.Sprintf("wg:%p", a[0].(*value))
			if os.Getenv("VF_DEBUG_SETTLE") != "" {
				fmt.Fprintf(os.Stderr, "wg.Done %s = %v\n", key, fr.i.side[key])
			}
			n, _ := fr.i.side[key].(int)
			if n <= 0 {
				panic(targetPanic{iface{t: types.Typ[types.String], v: "sync: negative WaitGroup counter"}})
			}
			fr.i.side[key] = n - 1
			return nil
		},
		"(*sync.WaitGroup).Wait": func(fr *frame, a []value) value {
			key := fmt.Sprintf("wg:%p", a[0].(*value))
			if os.Getenv("VF_DEBUG_SETTLE") != "" {
				fmt.Fprintf(os.Stderr, "wg.Wait %s = %v inOnBlock=%v\n", key, fr.i.side[key], fr.i.inOnBlock)
			}
			for k := 0; k < 64; k++ {
				if n, _ := fr.i.side[key].(int); n == 0 {
					return nil
				}
				if fr.i.onBlock == nil || fr.i.inOnBlock {
					break
				}
				fr.i.inOnBlock = true
				progress := call(fr.i, fr, token.NoPos, fr.i.onBlock, nil)
				fr.i.inOnBlock = false
				if b, ok := progress.(bool); !ok || !b {
					break
				}
			}
			if n, _ := fr.i.side[key].(int); n == 0 {
				return nil
			}
			panic(blockedPanic{"WaitGroup.Wait with a positive counter"})
		},
		"time.After": func(fr *frame, a []value) value {
			ch := &vchan{cap: 1}
			fr.i.side[fmt.Sprintf("after:%p", ch)] = true
			return ch
		},
		"runtime.Stack": func(fr *frame, a []value) value { return 0 },
		zz + "TimeoutsFired": func(fr *frame, a []value) value {
			n, _ := fr.i.side["timeouts-fired"].(int)
			return n
		},
		"(*sync.Once).Do":         extOnceDo,
		// sync.Pool: never retains anything
		"(*sync.Pool).Put": func(fr *frame, a []value) value { return nil },
		"(*sync.Pool).Get": func(fr *frame, a []value) value {
			pool := (*a[0].(*value)).(structure)
			newFn := pool[len(pool)-1]
			if f, ok := newFn.(*ssa.Function); ok && f == nil {
				return iface{}
			}
			return call(fr.i, fr, token.NoPos, newFn, nil)
		},

		// ---- strings / bytes intrinsics
		"(*strings.Builder).String":        extBuilderString,
		"(*strings.Builder).copyCheck":     func(fr *frame, a []value) value { return nil },
		"internal/bytealg.MakeNoZero":      extMakeNoZero,
		"internal/bytealg.IndexByteString": extIndexByte,
		"internal/bytealg.IndexByte":       extIndexByte,
		"strings.IndexByte":                extIndexByte,
		"bytes.IndexByte":                  extIndexByte,
		"internal/bytealg.CountString":     extCountByte,
		"internal/bytealg.Count":           extCountByte,
		"internal/bytealg.Equal":           extBytesEqual,
		"bytes.Equal":                      extBytesEqual,
		"strings.Index":                    extStringsIndex,
		"strings.Contains":                 func(fr *frame, a []value) value { return binop(token.GEQ, nil, extStringsIndex(fr, a), 0) },
		"strings.HasPrefix":                extHasPrefix,
		"strings.HasSuffix":                extHasSuffix,
		"internal/stringslite.Index":       extStringsIndex,
		"internal/stringslite.HasPrefix":   extHasPrefix,
		"internal/stringslite.HasSuffix":   extHasSuffix,
		"internal/stringslite.IndexByte":   extIndexByte,
		"unicode/utf8.DecodeRuneInString":  extDecodeRuneInString,
		"unicode/utf8.DecodeRune":          extDecodeRuneInString,
		"internal/stringslite.Clone":       func(fr *frame, a []value) value { return a[0] },
		"strings.Clone":                    func(fr *frame, a []value) value { return a[0] },
		"internal/abi.NoEscape":            func(fr *frame, a []value) value { return a[0] },
		"internal/race.Enabled":            func(fr *frame, a []value) value { return false },
		"runtime.KeepAlive":                func(fr *frame, a []value) value { return nil },
		"runtime.SetFinalizer":             func(fr *frame, a []value) value { return nil },
		"runtime.Gosched":                  func(fr *frame, a []value) value { return nil },
		"(*sync/atomic.Int32).Load":        extAtomicLoad,
		"(*sync/atomic.Int32).Store":       extAtomicStore,
		"(*sync/atomic.Uint32).Load":       extAtomicLoad,
		"(*sync/atomic.Uint32).Store":      extAtomicStore,
		"(*sync/atomic.Int64).Load":        extAtomicLoad,
		"(*sync/atomic.Int64).Store":       extAtomicStore,
		"(*sync/atomic.Bool).Load":         extAtomicLoadBool,
		"(*sync/atomic.Bool).Store":        extAtomicStoreBool,
		"sync/atomic.LoadUint32":           func(fr *frame, a []value) value { return *a[0].(*value) },
		"sync/atomic.StoreUint32":          func(fr *frame, a []value) value { *a[0].(*value) = a[1]; return nil },
		"sync/atomic.LoadInt32":            func(fr *frame, a []value) value { return *a[0].(*value) },
		"sync/atomic.StoreInt32":           func(fr *frame, a []value) value { *a[0].(*value) = a[1]; return nil },
		"sync/atomic.AddInt32":             extAtomicAdd,
		"sync/atomic.AddInt64":             extAtomicAdd,
		"sync/atomic.AddUint32":            extAtomicAdd,
		"sync/atomic.AddUint64":            extAtomicAdd,
		"sync/atomic.CompareAndSwapInt32":  extAtomicCAS,
		"sync/atomic.CompareAndSwapUint32": extAtomicCAS,
	} {
		externals[k] = v
	}
}

func concreteStr(v value) string {
	switch v := v.(type) {
	case string:
		return v
	case *sstr:
		var sb strings.Builder
		for _, e := range v.b {
			if c, ok := e.(uint8); ok {
				sb.WriteByte(c)
			} else {
				sb.WriteByte('?')
			}
		}
		return sb.String()
	}
	return fmt.Sprintf("%v", v)
}

func extParam(fr *frame, a []value) value {
	name := a[0].(string)
	v, ok := fr.i.x.Params[name]
	if !ok {
		panic(engineError("harness parameter not supplied: " + name))
	}
	return v
}

func extInput(fr *frame, a []value, k types.BasicKind) value {
	x := fr.i.x
	t := x.newInput(a[0].(string), kindWidth(k))
	return symInt{t: t, k: k, x: x}
}

func extBool(fr *frame, a []value) value {
	x := fr.i.x
	t := x.newInput(a[0].(string), 0)
	return symBool{t: t, x: x}
}

func extStr(fr *frame, a []value) value {
	x := fr.i.x
	n := int(asInt64(a[1]))
	b := make([]value, n)
	for i := range b {
		b[i] = symInt{t: x.newInput(fmt.Sprintf("%s_%d", a[0].(string), i), 8), k: types.Uint8, x: x}
	}
	return mkStr(x, b)
}

func extBytes(fr *frame, a []value) value {
	x := fr.i.x
	n := int(asInt64(a[1]))
	b := make([]value, n)
	for i := range b {
		b[i] = symInt{t: x.newInput(fmt.Sprintf("%s_%d", a[0].(string), i), 8), k: types.Uint8, x: x}
	}
	return b
}

func extChoose(fr *frame, a []value) value {
	return fr.i.x.choose(int(asInt64(a[1])))
}

func extTag(fr *frame, a []value) value {
	x := fr.i.x
	t := a[0].(string)
	for _, o := range x.tags {
		if o == t {
			return nil
		}
	}
	x.tags = append(x.tags, t)
	return nil
}

// Ite(c, a, b int) int: value-level if-then-else without forking.
func extIte(fr *frame, a []value) value {
	x := fr.i.x
	switch c := a[0].(type) {
	case bool:
		if c {
			return a[1]
		}
		return a[2]
	case symBool:
		p, k := intTerm(x, a[1])
		q, _ := intTerm(x, a[2])
		return wrapInt(x, x.ctx.Ite(c.t, p, q), k)
	}
	panic(engineError("Ite: bad condition"))
}

func extRunUntilBlocked(fr *frame, a []value) (res value) {
	defer func() {
		if r := recover(); r != nil {
			if _, ok := r.(blockedPanic); ok {
				res = nil
				return
			}
			panic(r)
		}
	}()
	depth, sl := fr.i.depth, len(fr.i.stack)
	defer func() { fr.i.depth = depth; fr.i.stack = fr.i.stack[:sl]; fr.i.panicStack = nil }()
	call(fr.i, fr, token.NoPos, a[0], nil)
	return nil
}

func extRunSpawned(fr *frame, a []value) value {
	i := int(asInt64(a[0]))
	if i < 0 || i >= len(fr.i.spawned) {
		panic(engineError("RunSpawned: no such thunk"))
	}
	th := fr.i.spawned[i]
	if th.done {
		return nil
	}
	th.done = true
	call(fr.i, fr, th.pos, th.fn, th.args)
	return nil
}

// Settle runs every goroutine spawned so far (in spawn order), including
// those spawned meanwhile, each until it returns or blocks.
func extSettle(fr *frame, a []value) value {
	for k := 0; k < len(fr.i.spawned); k++ {
		th := fr.i.spawned[k]
		if th.done {
			continue
		}
		th.done = true
		before := fr.i.effects
		func() {
			defer func() {
				if r := recover(); r != nil {
					if _, ok := r.(blockedPanic); ok {
						// a goroutine that blocked before it had any effect
						// is simply still waiting: it is started again at
						// the next Settle
						if fr.i.effects == before {
							th.done = false
						}
						if os.Getenv("VF_DEBUG_SETTLE") != "" {
							fmt.Fprintf(os.Stderr, "settle: thunk %d blocked (%v) effects %d->%d\n", k, r, before, fr.i.effects)
						}
						return
					}
					panic(r)
				}
			}()
			depth, sl := fr.i.depth, len(fr.i.stack)
			defer func() { fr.i.depth = depth; fr.i.stack = fr.i.stack[:sl]; fr.i.panicStack = nil }()
			call(fr.i, fr, th.pos, th.fn, th.args)
		}()
	}
	return nil
}

// ---- sync

func mutexCell(a []value) *value {
	p := a[0].(*value)
	if p == nil {
		panic(runtimePanic("invalid memory address or nil pointer dereference"))
	}
	s := (*p).(structure)
	// sync.Mutex{state int32, sema uint32}; sync.RWMutex{w Mutex, ...}
	if inner, ok := s[0].(structure); ok {
		return &inner[0]
	}
	return &s[0]
}

type deadlockPanic struct{ what string }

func extMutexLock(fr *frame, a []value) value {
	c := mutexCell(a)
	if (*c).(int32) != 0 {
		panic(targetPanic{iface{t: types.Typ[types.String], v: "fatal error: all goroutines are asleep - deadlock! (Lock of a mutex already held by this actor)"}})
	}
	*c = int32(1)
	return nil
}

func extMutexTryLock(fr *frame, a []value) value {
	c := mutexCell(a)
	if (*c).(int32) != 0 {
		return false
	}
	*c = int32(1)
	return true
}

func extMutexUnlock(fr *frame, a []value) value {
	c := mutexCell(a)
	if (*c).(int32) == 0 {
		panic(targetPanic{iface{t: types.Typ[types.String], v: "fatal error: sync: unlock of unlocked mutex"}})
	}
	*c = int32(0)
	return nil
}

func extOnceDo(fr *frame, a []value) value {
	p := a[0].(*value)
	s := (*p).(structure)
	// sync.Once{done atomic.Uint32 (struct{_ noCopy; v uint32}), m Mutex}
	key := fmt.Sprintf("once:%p", p)
	if _, done := fr.i.side[key]; done {
		return nil
	}
	_ = s
	fr.i.side[key] = true
	call(fr.i, fr, token.NoPos, a[1], nil)
	return nil
}

func atomicField(a []value) *value {
	p := a[0].(*value)
	s := (*p).(structure)
	return &s[len(s)-1]
}

func extAtomicLoad(fr *frame, a []value) value  { return *atomicField(a) }
func extAtomicStore(fr *frame, a []value) value { *atomicField(a) = a[1]; return nil }
func extAtomicLoadBool(fr *frame, a []value) value {
	v := *atomicField(a)
	return binop(token.NEQ, types.Typ[types.Uint32], v, uint32(0))
}
func extAtomicStoreBool(fr *frame, a []value) value {
	if truth(a[1]) {
		*atomicField(a) = uint32(1)
	} else {
		*atomicField(a) = uint32(0)
	}
	return nil
}
func extAtomicAdd(fr *frame, a []value) value {
	p := a[0].(*value)
	*p = binop(token.ADD, nil, *p, a[1])
	return *p
}
func extAtomicCAS(fr *frame, a []value) value {
	p := a[0].(*value)
	if truth(binop(token.EQL, types.Typ[types.Int32], *p, a[1])) {
		*p = a[2]
		return true
	}
	return false
}

// ---- strings

func extBuilderString(fr *frame, a []value) value {
	p := a[0].(*value)
	s := (*p).(structure)
	buf, _ := s[1].([]value)
	return mkStr(fr.i.x, buf)
}

func extMakeNoZero(fr *frame, a []value) value {
	n := concreteInt(a[0], "MakeNoZero")
	b := make([]value, n)
	for i := range b {
		b[i] = uint8(0)
	}
	return b
}

func seqBytes(v value) []value {
	switch v := v.(type) {
	case []value:
		return v
	}
	return strBytes(v)
}

// extIndexByte: index of first occurrence of c in s, or -1 (forks on symbolic bytes).
func extIndexByte(fr *frame, a []value) value {
	x := fr.i.x
	s := seqBytes(a[0])
	for i, b := range s {
		if truth(binop(token.EQL, types.Typ[types.Uint8], b, a[1])) {
			return i
		}
	}
	_ = x
	return -1
}

func extCountByte(fr *frame, a []value) value {
	s := seqBytes(a[0])
	n := 0
	for _, b := range s {
		if truth(binop(token.EQL, types.Typ[types.Uint8], b, a[1])) {
			n++
		}
	}
	return n
}

func extBytesEqual(fr *frame, a []value) value {
	p, q := seqBytes(a[0]), seqBytes(a[1])
	x := explorerOf(append(append([]value{}, p...), q...)...)
	if x == nil {
		x = fr.i.x
	}
	return wrapBool(x, bytesEqTerm(x, p, q))
}

func extStringsIndex(fr *frame, a []value) value {
	s, sub := seqBytes(a[0]), seqBytes(a[1])
	x := fr.i.x
	for i := 0; i+len(sub) <= len(s); i++ {
		if truth(wrapBool(x, bytesEqTerm(x, s[i:i+len(sub)], sub))) {
			return i
		}
	}
	return -1
}

func extHasPrefix(fr *frame, a []value) value {
	s, p := seqBytes(a[0]), seqBytes(a[1])
	if len(p) > len(s) {
		return false
	}
	return wrapBool(fr.i.x, bytesEqTerm(fr.i.x, s[:len(p)], p))
}

func extHasSuffix(fr *frame, a []value) value {
	s, p := seqBytes(a[0]), seqBytes(a[1])
	if len(p) > len(s) {
		return false
	}
	return wrapBool(fr.i.x, bytesEqTerm(fr.i.x, s[len(s)-len(p):], p))
}

func extDecodeRuneInString(fr *frame, a []value) value {
	b := seqBytes(a[0])
	if len(b) == 0 {
		return tuple{int32(0xFFFD), 0}
	}
	r, n := decodeRuneSym(fr.i.x, b)
	return tuple{r, n}
}

// vtimer models a timer / timer-queue entry; firing is a harness action.
type vtimer struct {
	fn    value
	args  []value
	armed bool
	what  string
}
