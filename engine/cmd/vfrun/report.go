package main

import (
	"encoding/json"
	"fmt"
	"os"
	"path/filepath"
	"runtime"
	"runtime/pprof"
	"sort"
	"strings"
	"time"

	"vf/interp"
)

type harnessSummary struct {
	Harness      string   `json:"harness"`
	Family       string   `json:"family"`
	Desc         string   `json:"desc,omitempty"`
	Instances    int      `json:"instances"`
	Paths        int      `json:"paths"`
	NonTrivial   int      `json:"nontrivial_paths"`
	Pruned       int      `json:"pruned_paths"`
	Obligations  int      `json:"obligations"`
	Discharged   int      `json:"discharged"`
	Queries      int      `json:"queries"`
	SolverTimeS  float64  `json:"solver_time_s"`
	WallS        float64  `json:"wall_s_sum"`
	Instrs       int64    `json:"ssa_instructions_executed"`
	Bounds       string   `json:"bounds"`
	Params       string   `json:"params"`
	Outside      string   `json:"outside,omitempty"`
	Reached      []string `json:"reach_markers_hit"`
	Inconclusive []string `json:"inconclusive,omitempty"`
	Violations   int      `json:"violations"`
	Known        int      `json:"known_finding_paths"`
}

func report(prop, tier string, seed int, specs []HarnessSpec, known []KnownFinding, results []jobResult, ld *loaded, noReplay bool, t0 time.Time, loadDur time.Duration, solver string) {
	stopProfile()
	if mp := os.Getenv("VF_MEMPROFILE"); mp != "" {
		runtime.GC()
		f, _ := os.Create(mp)
		pprof.WriteHeapProfile(f)
		f.Close()
	}
	sums := map[string]*harnessSummary{}
	var order []string
	funcs := map[string]int{}
	stubs := map[string]int{}
	assumptions := map[string]bool{}
	var samples []interface{}
	totalPaths, totalNT, totalObl, totalDis, totalQ := 0, 0, 0, 0, 0
	solverTime := 0.0
	var inconclusive []string
	exhaustive := true
	type viol struct {
		v  interp.Violation
		sp HarnessSpec
	}
	var unknownViols, knownViols []viol
	specBy := map[string]HarnessSpec{}
	for _, sp := range specs {
		if sp.Prop == prop {
			specBy[sp.Harness] = sp
		}
	}
	reachHit := map[string]map[string]bool{}

	for _, r := range results {
		sp := r.job.spec
		key := sp.Harness
		if sp.Variant != "" {
			key += " [" + sp.Variant + "]"
		}
		s := sums[key]
		if s == nil {
			ps := sp.Quick
			if tier == "thorough" && sp.Thorough != nil {
				ps = sp.Thorough
			}
			pj, _ := json.Marshal(ps)
			s = &harnessSummary{Harness: key, Family: sp.Family, Desc: sp.Desc, Bounds: sp.Bounds, Outside: sp.Outside, Params: string(pj)}
			sums[key] = s
			order = append(order, key)
			if reachHit[sp.Harness] == nil {
				reachHit[sp.Harness] = map[string]bool{}
			}
		}
		if !r.sub {
			s.Instances++
		}
		if r.err != "" {
			inconclusive = append(inconclusive, sp.Harness+": "+r.err)
			s.Inconclusive = append(s.Inconclusive, r.err)
			exhaustive = false
			continue
		}
		res := r.res
		s.Paths += res.Stats.Paths
		s.NonTrivial += res.Stats.PathsNonTriv
		s.Pruned += res.Stats.Pruned
		s.Obligations += res.Stats.Obligations
		s.Discharged += res.Stats.Discharged
		s.Queries += res.Queries
		s.SolverTimeS += res.SolverTimeS
		s.WallS += r.dur.Seconds()
		s.Instrs += res.Stats.Instrs
		s.Known += res.KnownCount
		totalPaths += res.Stats.Paths
		totalNT += res.Stats.PathsNonTriv
		totalObl += res.Stats.Obligations
		totalDis += res.Stats.Discharged
		totalQ += res.Queries
		solverTime += res.SolverTimeS
		for k, n := range res.Stats.Funcs {
			funcs[k] += n
		}
		for k, n := range res.Stats.Stubs {
			stubs[k] += n
		}
		for k := range res.Stats.Assumptions {
			assumptions[k] = true
		}
		for k := range res.Stats.Reached {
			reachHit[sp.Harness][k] = true
		}
		if !res.Exhaustive {
			exhaustive = false
		}
		for _, m := range res.Inconclusive {
			msg := fmt.Sprintf("%s %v: %s", sp.Harness, r.job.params, m)
			if len(inconclusive) < 40 {
				inconclusive = append(inconclusive, msg)
			}
			if len(s.Inconclusive) < 5 {
				s.Inconclusive = append(s.Inconclusive, msg)
			}
		}
		if len(samples) < 12 && len(res.Stats.Samples) > 0 {
			// one or two written-out paths per instance
			for i, ps := range res.Stats.Samples {
				if i >= 2 {
					break
				}
				samples = append(samples, map[string]interface{}{"harness": sp.Harness, "params": r.job.params, "path": ps})
			}
		}
		for _, v := range res.Violations {
			if v.Known {
				knownViols = append(knownViols, viol{v, sp})
			} else {
				unknownViols = append(unknownViols, viol{v, sp})
				s.Violations++
			}
		}
	}

	// vacuity: every declared reach marker must have been hit, and every
	// harness must have reached at least one assertion on a feasible path
	for _, h := range order {
		base := h
		if i := strings.Index(h, " ["); i >= 0 {
			base = h[:i]
		}
		sp := specBy[base]
		hit := reachHit[base]
		anyAssert := false
		var names []string
		for k := range hit {
			names = append(names, k)
			if strings.HasPrefix(k, "assert:") {
				anyAssert = true
			}
		}
		sort.Strings(names)
		sums[h].Reached = names
		if !anyAssert && sums[h].Violations == 0 {
			inconclusive = append(inconclusive, h+": vacuous (no assertion reached on any feasible path)")
			exhaustive = false
		}
		for _, want := range sp.Reach {
			if !hit[want] {
				inconclusive = append(inconclusive, h+": vacuous (reach marker "+want+" never hit)")
				exhaustive = false
			}
		}
	}

	// replay-confirm violations (stale replay files of this property go first)
	if old, _ := filepath.Glob(filepath.Join(evidenceDir(), "replays", prop+"-*")); len(old) > 0 && len(specBy) > 0 {
		for _, f := range old {
			os.Remove(f)
		}
	}
	exit := 0
	var violLines, knownLines []string
	replayed, reproduced := 0, 0
	knownHit := map[string]bool{}
	n := 0
	for _, kv := range knownViols {
		k := matchKnown(known, prop, &kv.v)
		if k == nil || knownHit[k.ID] {
			continue
		}
		knownHit[k.ID] = true
		n++
		path := writeReplay(prop, kv.sp, &kv.v, n)
		confirmed := "not replayed"
		if !noReplay {
			replayed++
			ok, _ := nativeReplay(path)
			if ok {
				reproduced++
				confirmed = "reproduced natively"
			} else {
				// a listed finding never fails the run; the native replay
				// may depend on Go's random map iteration order
				confirmed = "found by the engine; the native replay did not reproduce it in this run"
			}
		}
		knownLines = append(knownLines, fmt.Sprintf("KNOWN-FINDING: property=%s %s %s [%s; harness %s, assertion %s, replay %s]", prop, k.ID, k.Text, confirmed, kv.v.Harness, kv.v.AssertID, path))
	}
	seenV := map[string]bool{}
	classCount := map[string]int{}
	for _, uv := range unknownViols {
		classCount[uv.v.Harness+" "+uv.v.AssertID+" tags="+strings.Join(uv.v.Tags, ",")]++
	}
	for k, n := range classCount {
		fmt.Printf("  violation class: %s (%d paths)\n", k, n)
	}
	for _, uv := range unknownViols {
		key := uv.v.Harness + "|" + uv.v.AssertID + "|" + strings.Join(uv.v.Tags, ",")
		if seenV[key] {
			continue
		}
		seenV[key] = true
		n++
		path := writeReplay(prop, uv.sp, &uv.v, n)
		if noReplay {
			violLines = append(violLines, fmt.Sprintf("VIOLATION property=%s replay=%s", prop, path))
			fmt.Printf("  unreplayed: %s %s: %s tags=%v params=%v\n", uv.v.Harness, uv.v.AssertID, uv.v.Msg, uv.v.Tags, uv.v.Params)
			exit = 1
			continue
		}
		replayed++
		var ok bool
		var out string
		if uv.sp.EngineOnly {
			ok = engineReplay(uv.sp, &uv.v)
			out = "engine-only harness: decision prefix re-executed in the engine"
		} else {
			ok, out = nativeReplay(path)
		}
		if ok {
			reproduced++
			violLines = append(violLines, fmt.Sprintf("VIOLATION property=%s replay=%s", prop, path))
			fmt.Printf("  %s assertion=%s kind=%s: %s tags=%v params=%v\n", uv.v.Harness, uv.v.AssertID, uv.v.Kind, uv.v.Msg, uv.v.Tags, uv.v.Params)
			exit = 1
		} else {
			inconclusive = append(inconclusive, fmt.Sprintf("%s: solver counterexample for %s did not reproduce natively (encoding or stub mismatch); replay=%s", uv.v.Harness, uv.v.AssertID, path))
			os.WriteFile(path+".out", []byte(out), 0o644)
			exhaustive = false
		}
	}

	// evidence
	var hs []*harnessSummary
	for _, h := range order {
		hs = append(hs, sums[h])
	}
	var fl []string
	for k, c := range funcs {
		if strings.Contains(k, ".VF_") || strings.Contains(k, "zzvf") || strings.Contains(k, ".vf") {
			continue
		}
		fl = append(fl, fmt.Sprintf("%s (%d calls)", k, c))
	}
	sort.Strings(fl)
	var sl []string
	for k, c := range stubs {
		if strings.Contains(k, "zzvf.") {
			continue
		}
		sl = append(sl, fmt.Sprintf("%s (%d calls)", k, c))
	}
	sort.Strings(sl)
	var al []string
	al = append(al,
		"the go/ssa form produced by golang.org/x/tools v0.29.0 and this engine's interpretation of it agree with the gc compiler (guarded by the differential self-test and by native replay of every counterexample)",
		"z3 is sound for QF_BV; any unknown/error answer makes the run inconclusive",
		"within one actor callback the code is atomic (mutex model); finer interleavings and data races are outside the claim")
	for _, sp := range specBy {
		al = append(al, sp.Assume...)
	}
	for k := range assumptions {
		al = append(al, k)
	}
	sort.Strings(al[3:])
	var kfl []string
	for k := range knownHit {
		kfl = append(kfl, k)
	}
	sort.Strings(kfl)
	if samples == nil {
		samples = []interface{}{"no path sampled"}
	}
	ev := map[string]interface{}{
		"property_id": prop,
		"tier":        tier,
		"seed":        seed,
		"level":       "model_checking",
		"wall_s":      time.Since(t0).Seconds(),
		"violations":  len(violLines),
		"assumptions": al,
		"coverage": map[string]interface{}{
			"evaluations":                         totalPaths,
			"distinct_nontrivial":                 totalNT,
			"rule":                                "one evaluation = one explored path of a harness instance (distinct decision prefix over the real SSA code, feasibility of every branch decided by the solver); non-trivial = the path took at least one solver-decided symbolic decision and reached at least one assertion; paths are distinct by construction (DFS over decision prefixes)",
			"samples":                             samples,
			"obligations":                         totalObl,
			"discharged":                          totalDis,
			"exhaustive":                          exhaustive && len(violLines) == 0,
			"harnesses":                           hs,
			"functions_encoded":                   fl,
			"stubs_used":                          sl,
			"queries":                             totalQ,
			"solver_time_s":                       solverTime,
			"solvers":                             []string{solver},
			"load_and_ssa_build_s":                loadDur.Seconds(),
			"inconclusive":                        inconclusive,
			"known_findings_hit":                  kfl,
			"counterexamples_replayed_natively":   replayed,
			"counterexamples_reproduced_natively": reproduced,
			"explanation":                         "bounded symbolic execution of the real code from its go/ssa form, regenerated from /repo on this run; every assertion is an SMT query (pc AND NOT assertion) over all values of the symbolic inputs within the bounds listed per harness; nothing is claimed outside them",
		},
	}
	os.MkdirAll(filepath.Join(evidenceDir()), 0o755)
	data, _ := json.MarshalIndent(ev, "", " ")
	if err := os.WriteFile(filepath.Join(evidenceDir(), prop+".json"), data, 0o644); err != nil {
		fatal("write evidence: %v", err)
	}

	for _, h := range hs {
		fmt.Printf("%s [%s]: instances=%d paths=%d (nontrivial %d, pruned %d) obligations=%d discharged=%d queries=%d solver=%.2fs known-finding-paths=%d violations=%d\n",
			h.Harness, h.Family, h.Instances, h.Paths, h.NonTrivial, h.Pruned, h.Obligations, h.Discharged, h.Queries, h.SolverTimeS, h.Known, h.Violations)
	}
	for _, l := range knownLines {
		fmt.Println(l)
	}
	for _, l := range violLines {
		fmt.Println(l)
	}
	if exit == 1 {
		fmt.Printf("%s %s: VIOLATED (%.1fs)\n", prop, tier, time.Since(t0).Seconds())
		os.Exit(1)
	}
	if len(inconclusive) > 0 {
		for _, m := range inconclusive {
			fmt.Println("INCONCLUSIVE:", m)
		}
		fmt.Printf("%s %s: INCONCLUSIVE (%.1fs)\n", prop, tier, time.Since(t0).Seconds())
		os.Exit(3)
	}
	fmt.Printf("%s %s: holds within bounds (%d paths, %d obligations, %d queries, %.1fs)\n", prop, tier, totalPaths, totalObl, totalQ, time.Since(t0).Seconds())
}

func cmdSelftest(args []string) {
	// the differential self-test is the harness set of pseudo property
	// "SELF": first natively (gc-compiled), then under the engine
	for _, sp := range loadIndex() {
		if sp.Prop != "SELF" {
			continue
		}
		v := &interp.Violation{Harness: sp.Harness, Kind: "selftest", Params: map[string]int{}}
		path := writeReplay("SELF", sp, v, 0)
		_, out := nativeReplay(path)
		if !strings.Contains(out, "VF-REPLAY-PASS "+sp.Harness) {
			fmt.Print(out)
			fmt.Printf("SELFTEST FAILED: %s does not pass natively\n", sp.Harness)
			os.Exit(3)
		}
		fmt.Printf("selftest: %s passes natively\n", sp.Harness)
	}
	cmdCheck(append([]string{"-prop", "SELF"}, args...))
}
