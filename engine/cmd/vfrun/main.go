// vfrun: driver of the symbolic checks.
//
//	vfrun check -prop C05 -tier quick     run all harnesses of a property
//	vfrun replay -file <replay.json>      re-run a counterexample natively
//	vfrun selftest                        differential self-test of the engine
package main

import (
	"encoding/json"
	"flag"
	"fmt"
	"os"
	"os/exec"
	"path/filepath"
	"regexp"
	"runtime"
	"runtime/debug"
	"runtime/pprof"
	"sort"
	"strconv"
	"strings"
	"sync"
	"time"

	"golang.org/x/tools/go/packages"
	"golang.org/x/tools/go/ssa"
	"golang.org/x/tools/go/ssa/ssautil"

	"vf/interp"
	"vf/smt"
)

const modPath = "github.com/resgateio/resgate"

var (
	repoDir  = envOr("VF_REPO", "/repo")
	verifDir = envOr("VF_VERIF", "/verif")
)

// evidenceDir is where evidence and replay files go (VF_EVIDENCE_DIR lets
// experiments on scratch copies of the repository keep /verif/evidence intact).
func evidenceDir() string {
	return envOr("VF_EVIDENCE_DIR", filepath.Join(verifDir, "evidence"))
}

func envOr(k, d string) string {
	if v := os.Getenv(k); v != "" {
		return v
	}
	return d
}

var stopProfile = func() {}

var engineReplay func(sp HarnessSpec, v *interp.Violation) bool

var pkgDirs = map[string]string{
	"rescache": "server/rescache",
	"server":   "server",
	"codec":    "server/codec",
	"rpc":      "server/rpc",
	"nats":     "nats",
	"reserr":   "server/reserr",
	"zzvf":     "zzvf",
}

// HarnessSpec is one entry of harness/index.json.
type HarnessSpec struct {
	Prop     string            `json:"prop"`
	Harness  string            `json:"harness"`
	Pkg      string            `json:"pkg"`
	Family   string            `json:"family"`
	Variant  string            `json:"variant"`
	Desc     string            `json:"desc"`
	Quick    map[string]string `json:"quick"`
	Thorough map[string]string `json:"thorough"`
	Reach    []string          `json:"reach"`
	Bounds   string            `json:"bounds"`
	Outside  string            `json:"outside"`
	MaxPaths int               `json:"max_paths"`
	Real     []string          `json:"real"`
	Assume   []string          `json:"assumptions"`
	// EngineOnly: the harness cannot run natively (stubbed third-party
	// library); counterexamples are confirmed by deterministic re-execution
	// of the recorded decision prefix in the engine.
	EngineOnly bool `json:"engine_only"`
}

type KnownFinding struct {
	ID       string   `json:"id"`
	Property string   `json:"property"`
	Status   string   `json:"status"` // "known" or "fixed"
	Harness  string   `json:"harness"`
	Assert   string   `json:"assert"`
	Tags     []string `json:"tags"`
	Text     string   `json:"text"`
	Commit   string   `json:"commit,omitempty"`
}

func overlay() (map[string][]byte, map[string]string) {
	ov := map[string][]byte{}
	repl := map[string]string{}
	for pkg, dir := range pkgDirs {
		files, _ := filepath.Glob(filepath.Join(verifDir, "harness", pkg, "*.go"))
		for _, f := range files {
			data, err := os.ReadFile(f)
			if err != nil {
				fatal("read %s: %v", f, err)
			}
			dst := filepath.Join(repoDir, dir, filepath.Base(f))
			ov[dst] = data
			repl[dst] = f
		}
	}
	return ov, repl
}

func fatal(format string, a ...interface{}) {
	fmt.Fprintf(os.Stderr, "vfrun: "+format+"\n", a...)
	os.Exit(3)
}

type loaded struct {
	prog *ssa.Program
	pkgs map[string]*ssa.Package // by short name
}

func load() *loaded {
	ov, _ := overlay()
	cfg := &packages.Config{
		Mode:       packages.LoadAllSyntax,
		Dir:        repoDir,
		BuildFlags: []string{"-tags=verif"},
		Overlay:    ov,
		Env:        append(os.Environ(), "GOFLAGS=-mod=mod", "GOPROXY=off", "GOSUMDB=off", "GOTOOLCHAIN=local"),
	}
	var patterns []string
	for pkg, dir := range pkgDirs {
		_ = pkg
		patterns = append(patterns, "./"+dir)
	}
	sort.Strings(patterns)
	initial, err := packages.Load(cfg, patterns...)
	if err != nil {
		fatal("load: %v", err)
	}
	nerr := 0
	packages.Visit(initial, nil, func(p *packages.Package) {
		for _, e := range p.Errors {
			if strings.HasPrefix(p.PkgPath, modPath) {
				fmt.Fprintf(os.Stderr, "load error in %s: %v\n", p.PkgPath, e)
				nerr++
			}
		}
	})
	if nerr > 0 {
		fmt.Println("INCONCLUSIVE: harness or repository no longer compiles (see stderr)")
		os.Exit(3)
	}
	prog, _ := ssautil.AllPackages(initial, ssa.InstantiateGenerics)
	prog.Build()
	l := &loaded{prog: prog, pkgs: map[string]*ssa.Package{}}
	for _, p := range prog.AllPackages() {
		path := p.Pkg.Path()
		if strings.HasPrefix(path, modPath+"/") {
			rel := strings.TrimPrefix(path, modPath+"/")
			for short, dir := range pkgDirs {
				if dir == rel {
					l.pkgs[short] = p
				}
			}
		}
	}
	return l
}

func parseRange(s string) []int {
	var out []int
	for _, part := range strings.Split(s, ",") {
		part = strings.TrimSpace(part)
		if i := strings.Index(part, ".."); i >= 0 {
			a, _ := strconv.Atoi(part[:i])
			b, _ := strconv.Atoi(part[i+2:])
			for v := a; v <= b; v++ {
				out = append(out, v)
			}
		} else {
			v, _ := strconv.Atoi(part)
			out = append(out, v)
		}
	}
	return out
}

func instances(ps map[string]string) []map[string]int {
	keys := make([]string, 0, len(ps))
	for k := range ps {
		keys = append(keys, k)
	}
	sort.Strings(keys)
	res := []map[string]int{{}}
	for _, k := range keys {
		var next []map[string]int
		for _, base := range res {
			for _, v := range parseRange(ps[k]) {
				m := map[string]int{}
				for kk, vv := range base {
					m[kk] = vv
				}
				m[k] = v
				next = append(next, m)
			}
		}
		res = next
	}
	return res
}

type job struct {
	spec   HarnessSpec
	params map[string]int
	fn     *ssa.Function
}

type jobResult struct {
	job job
	res *interp.Result
	err string
	dur time.Duration
	sub bool // a prefix task of an instance already counted
}

func loadIndex() []HarnessSpec {
	data, err := os.ReadFile(filepath.Join(verifDir, "harness", "index.json"))
	if err != nil {
		fatal("index: %v", err)
	}
	var specs []HarnessSpec
	if err := json.Unmarshal(data, &specs); err != nil {
		fatal("index: %v", err)
	}
	return specs
}

func loadKnown() []KnownFinding {
	data, err := os.ReadFile(filepath.Join(verifDir, "known_findings.json"))
	if err != nil {
		return nil
	}
	var k []KnownFinding
	if err := json.Unmarshal(data, &k); err != nil {
		fatal("known_findings.json: %v", err)
	}
	return k
}

func matchKnown(known []KnownFinding, prop string, v *interp.Violation) *KnownFinding {
	for i := range known {
		k := &known[i]
		if k.Status != "known" || k.Property != prop || k.Harness != v.Harness || k.Assert != v.AssertID {
			continue
		}
		ok := true
		for _, t := range k.Tags {
			found := false
			for _, vt := range v.Tags {
				if vt == t {
					found = true
				}
			}
			if !found {
				ok = false
			}
		}
		if ok {
			return k
		}
	}
	return nil
}

func main() {
	// the SSA program is a large, long-lived heap: collect rarely
	if at := os.Getenv("VF_MEMPROFILE_AT"); at != "" {
		n, _ := strconv.Atoi(at)
		go func() {
			time.Sleep(time.Duration(n) * time.Second)
			runtime.GC()
			f, _ := os.Create("/tmp/mem_at.prof")
			pprof.WriteHeapProfile(f)
			f.Close()
		}()
	}
	debug.SetGCPercent(200)
	debug.SetMemoryLimit(20 << 30)
	if len(os.Args) < 2 {
		fatal("usage: vfrun check|replay|selftest ...")
	}
	switch os.Args[1] {
	case "check":
		cmdCheck(os.Args[2:])
	case "replay":
		cmdReplay(os.Args[2:])
	case "selftest":
		cmdSelftest(os.Args[2:])
	default:
		fatal("unknown command %s", os.Args[1])
	}
}

func cmdCheck(args []string) {
	fs := flag.NewFlagSet("check", flag.ExitOnError)
	prop := fs.String("prop", "", "property id")
	tier := fs.String("tier", "quick", "quick|thorough")
	only := fs.String("harness", "", "run only this harness")
	workers := fs.Int("j", 16, "workers")
	solver := fs.String("solver", "z3", "z3|z3-new|cvc5")
	timeout := fs.Int("solver-timeout-ms", 60000, "per query")
	noReplay := fs.Bool("no-replay", false, "skip native replay (debugging only)")
	verbose := fs.Bool("v", false, "verbose")
	paramOv := fs.String("params", "", "override params, e.g. n=3,m=1")
	maxViol := fs.Int("maxviol", 3, "stop an instance after this many unlisted violations")
	cpuprof := fs.String("cpuprofile", "", "write a CPU profile")
	split := fs.Int("split", -1, "decision depth at which instances are split into parallel tasks (-1 auto, 0 off)")
	fs.Parse(args)
	if *prop == "" {
		fatal("-prop required")
	}
	if *cpuprof != "" {
		f, _ := os.Create(*cpuprof)
		pprof.StartCPUProfile(f)
		defer pprof.StopCPUProfile()
		stopProfile = pprof.StopCPUProfile
	}
	if t := os.Getenv("VERIF_TIER"); t != "" && !flagSet(fs, "tier") {
		*tier = t
	}
	seed := 0
	if s := os.Getenv("VERIF_SEED"); s != "" {
		seed, _ = strconv.Atoi(s)
	}
	t0 := time.Now()
	specs := loadIndex()
	known := loadKnown()
	ld := load()
	loadDur := time.Since(t0)

	var jobs []job
	for _, sp := range specs {
		if sp.Prop != *prop || (*only != "" && sp.Harness != *only) {
			continue
		}
		pkg := ld.pkgs[sp.Pkg]
		if pkg == nil {
			fatal("package %s not loaded", sp.Pkg)
		}
		fn := pkg.Func(sp.Harness)
		if fn == nil {
			fmt.Printf("INCONCLUSIVE: harness %s not found in package %s\n", sp.Harness, sp.Pkg)
			os.Exit(3)
		}
		ps := sp.Quick
		if *tier == "thorough" && sp.Thorough != nil {
			ps = sp.Thorough
		}
		if *paramOv != "" {
			ps = map[string]string{}
			for _, kv := range strings.Split(*paramOv, ",") {
				p := strings.SplitN(kv, "=", 2)
				ps[p[0]] = p[1]
			}
		}
		for _, inst := range instances(ps) {
			jobs = append(jobs, job{spec: sp, params: inst, fn: fn})
		}
	}
	if len(jobs) == 0 {
		fatal("no harness registered for %s", *prop)
	}
	// seed only permutes the order in which instances are scheduled
	if seed != 0 {
		r := uint64(seed)*2654435761 + 1
		for i := len(jobs) - 1; i > 0; i-- {
			r = r*6364136223846793005 + 1442695040888963407
			j := int((r >> 33) % uint64(i+1))
			jobs[i], jobs[j] = jobs[j], jobs[i]
		}
	}

	splitDepth := *split
	if splitDepth < 0 {
		splitDepth = 7
	}
	// lifecycle instances are always split into prefix tasks (they dominate
	// the tail); kernel instances only when there are few of them
	fewJobs := len(jobs) < 3**workers
	splitJob := func(j job) bool { return splitDepth > 0 && (fewJobs || j.spec.Family == "L") }
	sort.SliceStable(jobs, func(a, b int) bool { return jobs[a].spec.Family == "L" && jobs[b].spec.Family != "L" })
	runOne := func(sv *smt.Solver, j job, prefix []int64, enumerate bool) (jobResult, [][]int64) {
		t1 := time.Now()
		x := interp.NewExplorerOn(sv)
		if j.spec.MaxPaths > 0 {
			x.SetBudgets(j.spec.MaxPaths, 0, 0)
		}
		if enumerate {
			x.SetSplit(splitDepth)
		}
		if prefix != nil {
			x.SetPrefix(prefix)
		}
		kf := func(v *interp.Violation) bool { return matchKnown(known, *prop, v) != nil }
		res := interp.RunHarnessK(ld.prog, j.fn, x, j.params, *maxViol, kf)
		if *verbose {
			fmt.Fprintf(os.Stderr, "  %s %v prefix=%v: paths=%d obl=%d/%d viol=%d queries=%d %.2fs %v\n", j.spec.Harness, j.params, prefix,
				res.Stats.Paths, res.Stats.Discharged, res.Stats.Obligations, len(res.Violations), res.Queries, time.Since(t1).Seconds(), res.Inconclusive)
		}
		return jobResult{job: j, res: res, dur: time.Since(t1)}, x.Prefixes
	}
	type task struct {
		j      job
		prefix []int64
	}
	var mu sync.Mutex
	var results []jobResult
	var tasks []task
	parallel := func(n int, f func(sv *smt.Solver, i int)) {
		var wg sync.WaitGroup
		ch := make(chan int)
		for w := 0; w < *workers; w++ {
			wg.Add(1)
			go func() {
				defer wg.Done()
				var sv *smt.Solver
				defer func() {
					if sv != nil {
						sv.Close()
					}
				}()
				for i := range ch {
					if sv == nil || sv.Dead() || sv.Level() != 0 {
						if sv != nil {
							sv.Close()
						}
						var err error
						sv, err = smt.NewSolver(*solver, *timeout)
						if err != nil {
							fatal("solver: %v", err)
						}
					}
					f(sv, i)
				}
			}()
		}
		for i := 0; i < n; i++ {
			ch <- i
		}
		close(ch)
		wg.Wait()
	}
	// phase 1: whole instances, or prefix enumeration when splitting
	parallel(len(jobs), func(sv *smt.Solver, i int) {
		r, prefixes := runOne(sv, jobs[i], nil, splitJob(jobs[i]))
		mu.Lock()
		results = append(results, r)
		for _, p := range prefixes {
			tasks = append(tasks, task{jobs[i], p})
		}
		mu.Unlock()
	})
	// phase 2: one task per decision prefix
	parallel(len(tasks), func(sv *smt.Solver, i int) {
		r, _ := runOne(sv, tasks[i].j, tasks[i].prefix, false)
		r.sub = true
		mu.Lock()
		results = append(results, r)
		mu.Unlock()
	})

	engineReplay = func(sp HarnessSpec, v *interp.Violation) bool {
		sv, err := smt.NewSolver(*solver, *timeout)
		if err != nil {
			return false
		}
		defer sv.Close()
		x := interp.NewExplorerOn(sv)
		x.SetPrefix(v.Decisions)
		fn := ld.pkgs[sp.Pkg].Func(sp.Harness)
		res := interp.RunHarnessK(ld.prog, fn, x, v.Params, 1, nil)
		for _, w := range res.Violations {
			if w.AssertID == v.AssertID {
				return true
			}
		}
		return false
	}
	report(*prop, *tier, seed, specs, known, results, ld, *noReplay, t0, loadDur, *solver)
}

func flagSet(fs *flag.FlagSet, name string) bool {
	set := false
	fs.Visit(func(f *flag.Flag) {
		if f.Name == name {
			set = true
		}
	})
	return set
}

// ---- native replay

type replayOut struct {
	Harness string            `json:"harness"`
	Params  map[string]int    `json:"params"`
	Inputs  []interp.InputVal `json:"inputs"`
	Choices []int64           `json:"choices"`
	// informational
	Property string   `json:"property"`
	Pkg      string   `json:"pkg"`
	Assert   string   `json:"assert"`
	Kind     string   `json:"kind"`
	Msg      string   `json:"msg"`
	Tags     []string `json:"tags"`
	Notes    []string `json:"notes"`
	Decision []int64  `json:"decisions"`
}

func writeReplay(prop string, sp HarnessSpec, v *interp.Violation, n int) string {
	dir := filepath.Join(evidenceDir(), "replays")
	os.MkdirAll(dir, 0o755)
	path := filepath.Join(dir, fmt.Sprintf("%s-%s-%d.json", prop, v.Harness, n))
	out := replayOut{Harness: v.Harness, Params: v.Params, Inputs: v.Inputs, Choices: v.Choices,
		Property: prop, Pkg: sp.Pkg, Assert: v.AssertID, Kind: v.Kind, Msg: v.Msg, Tags: v.Tags, Notes: v.Notes, Decision: v.Decisions}
	data, _ := json.MarshalIndent(out, "", " ")
	os.WriteFile(path, data, 0o644)
	return path
}

var replayMu sync.Mutex

// nativeReplay runs the harness natively under the replay file. It returns
// (reproduced, output).
// nativeReplay re-runs a counterexample natively. Go randomises map
// iteration order natively (the engine uses insertion or reverse order), so
// a counterexample that depends on it may need several attempts.
func nativeReplay(path string) (bool, string) {
	var out string
	for try := 0; try < 16; try++ {
		ok, o := nativeReplayOnce(path)
		out = o
		if ok {
			return true, out
		}
		if strings.Contains(o, "VF-REPLAY-NOHARNESS") || strings.Contains(o, "[build failed]") || strings.Contains(o, "VF-REPLAY-ERROR") {
			break
		}
	}
	return false, out
}

func nativeReplayOnce(path string) (bool, string) {
	replayMu.Lock()
	defer replayMu.Unlock()
	data, err := os.ReadFile(path)
	if err != nil {
		return false, err.Error()
	}
	var rp replayOut
	if err := json.Unmarshal(data, &rp); err != nil {
		return false, err.Error()
	}
	_, repl := overlay()
	ovf, _ := os.CreateTemp("", "vf-overlay-*.json")
	defer os.Remove(ovf.Name())
	json.NewEncoder(ovf).Encode(map[string]interface{}{"Replace": repl})
	ovf.Close()
	dir := pkgDirs[rp.Pkg]
	abs, _ := filepath.Abs(path)
	cmd := exec.Command("go", "test", "-tags", "verif", "-vet=off", "-count=1", "-v", "-overlay", ovf.Name(), "-run", "^TestVFReplay$", "-timeout", "120s", "./"+dir)
	cmd.Dir = repoDir
	cmd.Env = append(os.Environ(), "GOFLAGS=-mod=mod", "GOPROXY=off", "GOSUMDB=off", "GOTOOLCHAIN=local", "VF_REPLAY="+abs)
	outb, _ := cmd.CombinedOutput()
	out := string(outb)
	switch rp.Kind {
	case "assert":
		if strings.Contains(out, "VF-ASSERT-FAIL "+rp.Assert) {
			return true, out
		}
	case "panic":
		if strings.Contains(out, "VF-PANIC") || regexp.MustCompile(`(?m)^panic: |^fatal error: `).MatchString(out) {
			return true, out
		}
	}
	return false, out
}

func cmdReplay(args []string) {
	fs := flag.NewFlagSet("replay", flag.ExitOnError)
	file := fs.String("file", "", "replay file")
	fs.Parse(args)
	if *file == "" && fs.NArg() > 0 {
		*file = fs.Arg(0)
	}
	data, err := os.ReadFile(*file)
	if err != nil {
		fatal("replay: %v", err)
	}
	var rp replayOut
	if err := json.Unmarshal(data, &rp); err != nil {
		fatal("replay: %v", err)
	}
	for _, sp := range loadIndex() {
		if sp.Harness == rp.Harness && sp.EngineOnly {
			// no native mode: re-execute the decision prefix in the engine
			ld := load()
			sv, err := smt.NewSolver("z3", 60000)
			if err != nil {
				fatal("solver: %v", err)
			}
			defer sv.Close()
			x := interp.NewExplorerOn(sv)
			x.SetPrefix(rp.Decision)
			res := interp.RunHarnessK(ld.prog, ld.pkgs[sp.Pkg].Func(sp.Harness), x, rp.Params, 1, nil)
			for _, w := range res.Violations {
				fmt.Printf("engine replay: %s assertion=%s: %s\n", w.Harness, w.AssertID, w.Msg)
				for _, n := range w.Notes {
					fmt.Println("  ", n)
				}
				if w.AssertID == rp.Assert {
					fmt.Println("REPRODUCED (engine)")
					os.Exit(1)
				}
			}
			fmt.Println("NOT-REPRODUCED (engine)")
			return
		}
	}
	ok, out := nativeReplay(*file)
	fmt.Print(out)
	if ok {
		fmt.Println("REPRODUCED")
		os.Exit(1)
	}
	fmt.Println("NOT-REPRODUCED")
}
