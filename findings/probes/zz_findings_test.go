// End-to-end reproductions of the defects listed in /verif/DESIGN.md §4, written
// against the repository's own public test harness (package test). They are injected
// with `go test -overlay` (see ../README.md) and never copied into /repo.
// Each test FAILS while its defect is present and passes once it is repaired.
package test

import (
	"encoding/json"
	"io"
	"strings"
	"testing"
	"time"

	"github.com/resgateio/resgate/server"
	"github.com/resgateio/resgate/server/reserr"
)

func vfGauges(s *Session) string {
	r := s.MetricsHTTPRequest()
	b, _ := io.ReadAll(r.Body)
	out := ""
	for _, l := range strings.Split(string(b), "\n") {
		if strings.HasPrefix(l, "resgate_cache_") {
			out += l + "; "
		}
	}
	return out
}

const vfIdleGauges = "resgate_cache_resources 0; resgate_cache_subscriptions 0; "

func vfMetricsNoDelay(cfg *server.Config) {
	cfg.MetricsPort = 8090
	cfg.NoUnsubscribeDelay = true
}

// D1 (C07, C08): unsubscribe while the subscribe is outstanding.
func TestFinding_D1_UnsubscribeWhileSubscribeOutstanding(t *testing.T) {
	runTest(t, func(s *Session) {
		model := resourceData("test.model")
		c := s.Connect()
		creq := c.Request("subscribe.test.model", nil)
		mreqs := s.GetParallelRequests(t, 2)
		ur := c.Request("unsubscribe.test.model", nil).GetResponse(t)
		if ur.Error == nil {
			t.Errorf("C08: unsubscribe succeeded although no subscribe had succeeded yet")
		}
		mreqs.GetRequest(t, "access.test.model").RespondSuccess(json.RawMessage(`{"get":true}`))
		mreqs.GetRequest(t, "get.test.model").RespondSuccess(json.RawMessage(`{"model":` + model + `}`))
		select {
		case <-creq.ch:
		case <-time.After(1 * time.Second):
			t.Errorf("C07: the subscribe request never received a response")
		}
	})
}

// D2 (C08): a failed get leaves a direct subscription behind.
func TestFinding_D2_FailedGetResidue(t *testing.T) {
	runTest(t, func(s *Session) {
		c := s.Connect()
		creq := c.Request("get.test.model", nil)
		mreqs := s.GetParallelRequests(t, 2)
		mreqs.GetRequest(t, "access.test.model").RespondSuccess(json.RawMessage(`{"get":true}`))
		mreqs.GetRequest(t, "get.test.model").RespondError(reserr.ErrNotFound)
		creq.GetResponse(t)
		ur := c.Request("unsubscribe.test.model", nil).GetResponse(t)
		if ur.Error == nil {
			t.Errorf("C08: unsubscribe after a failed get succeeded: a direct subscription was left behind")
		}
	})
}

// D3 (C13, C01, C03): aliasing queries with both get requests in flight.
func TestFinding_D3_AliasingQueriesBothInFlight(t *testing.T) {
	runTest(t, func(s *Session) {
		model := resourceData("test.model")
		c1 := s.Connect()
		c2 := s.Connect()
		r1 := c1.Request("subscribe.test.model?q=b", nil)
		m1 := s.GetParallelRequests(t, 2)
		r2 := c2.Request("subscribe.test.model?q=a", nil)
		m2 := s.GetParallelRequests(t, 2)
		m1.GetRequest(t, "access.test.model").RespondSuccess(json.RawMessage(`{"get":true}`))
		m2.GetRequest(t, "access.test.model").RespondSuccess(json.RawMessage(`{"get":true}`))
		m2.GetRequest(t, "get.test.model").RespondSuccess(json.RawMessage(`{"model":` + model + `,"query":"q=b"}`))
		m1.GetRequest(t, "get.test.model").RespondSuccess(json.RawMessage(`{"model":` + model + `,"query":"q=b"}`))
		r2.GetResponse(t)
		r1.GetResponse(t)
		s.ResourceEvent("test.model", "query", json.RawMessage(`{"subject":"_EVENT_01_"}`))
		s.GetRequest(t).RespondSuccess(json.RawMessage(`{"events":[{"event":"custom","data":{"foo":"bar"}}]}`))
		for i, c := range []*Conn{c1, c2} {
			select {
			case <-c.evs:
			case <-time.After(500 * time.Millisecond):
				t.Errorf("C13: connection %d did not receive the event derived for its query", i+1)
			}
		}
	})
}

// D4 (C09): subscribe with a subject that is too long leaks the cache entry.
func TestFinding_D4_LongRIDLeaksCacheEntry(t *testing.T) {
	runTest(t, func(s *Session) {
		c := s.Connect()
		c.Request("subscribe.test."+generateString(10000), nil).GetResponse(t)
		c.Disconnect()
		time.Sleep(150 * time.Millisecond)
		if g := vfGauges(s); g != vfIdleGauges {
			t.Errorf("C09: idle gateway, gauges = %s", g)
		}
	}, vfMetricsNoDelay)
}

// D5 (C15): null element in the events of a query response.
// NOTE: while the defect is present this test kills the test binary (nil dereference
// on a cache worker goroutine); run it alone.
func TestFinding_D5_NullQueryEventCrashes(t *testing.T) {
	runTest(t, func(s *Session) {
		c := s.Connect()
		subscribeToTestQueryModel(t, s, c, "q=foo&f=bar", "q=foo&f=bar")
		s.ResourceEvent("test.model", "query", json.RawMessage(`{"subject":"_EVENT_01_"}`))
		s.GetRequest(t).RespondSuccess(json.RawMessage(`{"events":[null]}`))
		time.Sleep(100 * time.Millisecond)
		s.ResourceEvent("test.model", "query", json.RawMessage(`{"subject":"_EVENT_02_"}`))
		s.GetRequest(t).RespondSuccess(json.RawMessage(`{"events":[{"event":"custom","data":{"a":1}}]}`))
		c.GetEvent(t).AssertEventName(t, "test.model?q=foo&f=bar.custom")
		s.AssertErrorsLogged(t, 1)
	})
}

// D7 (C04): data delivered under a grant that a reaccess event superseded.
// Mirrors upstream TestReaccessSentBeforeGetResponseDenyingAccess, which asserts this
// behaviour; kept for the record of the known finding.
func TestFinding_D7_DataUnderSupersededGrant(t *testing.T) {
	runTest(t, func(s *Session) {
		model := resourceData("test.model")
		c := s.Connect()
		creq := c.Request("subscribe.test.model", nil)
		mreqs := s.GetParallelRequests(t, 2)
		mreqs.GetRequest(t, "access.test.model").RespondSuccess(json.RawMessage(`{"get":true}`))
		s.ResourceEvent("test.model", "reaccess", nil)
		mreqs.GetRequest(t, "get.test.model").RespondSuccess(json.RawMessage(`{"model":` + model + `}`))
		r := creq.GetResponse(t)
		if r.Error == nil {
			t.Errorf("C04: resource data delivered although a reaccess event reached the gateway after the grant and before a new verdict")
		}
		s.GetRequest(t).AssertSubject(t, "access.test.model").RespondSuccess(json.RawMessage(`{"get":false}`))
	})
}

// D8 (C11): throttled access request started after its connection closed.
func TestFinding_D8_ThrottledAccessAfterDisconnect(t *testing.T) {
	runTest(t, func(s *Session) {
		c1 := s.Connect()
		c2 := s.Connect()
		subscribeToTestModel(t, s, c1)
		subscribeToCachedResource(t, s, c2, "test.model")
		s.SystemEvent("reset", json.RawMessage(`{"access":["test.>"]}`))
		req1 := s.GetRequest(t)
		c2.Disconnect()
		c1.Disconnect()
		time.Sleep(50 * time.Millisecond)
		req1.RespondSuccess(json.RawMessage(`{"get":true}`))
		select {
		case r := <-s.NATSTestClient.reqs:
			t.Errorf("C11: request %s issued after every connection had closed", r.Subject)
		case <-time.After(300 * time.Millisecond):
		}
	}, func(cfg *server.Config) { cfg.ResetThrottle = 1 })
}

// D9 (C02): second reference from the same parent inflates the sent count.
func TestFinding_D9_SecondReferenceFromSameParent(t *testing.T) {
	runTest(t, func(s *Session) {
		modelDelayed := `{"name":"delayed"}`
		modelDelayedParent := `{"name":"delayedparent","child":{"rid":"test.model"},"delayed":{"rid":"test.model.delayed"}}`
		c := s.Connect()
		subscribeToTestModelParent(t, s, c, false)
		s.ResourceEvent("test.model.parent", "change", json.RawMessage(`{"values":{"child2":{"rid":"test.model"}}}`))
		c.GetEvent(t).AssertEventName(t, "test.model.parent.change")
		creq := c.Request("subscribe.test.model.delayedparent", nil)
		mreqs := s.GetParallelRequests(t, 2)
		mreqs.GetRequest(t, "access.test.model.delayedparent").RespondSuccess(json.RawMessage(`{"get":true}`))
		mreqs.GetRequest(t, "get.test.model.delayedparent").RespondSuccess(json.RawMessage(`{"model":` + modelDelayedParent + `}`))
		mreqsecond := s.GetRequest(t)
		c.Request("unsubscribe.test.model.parent", nil).GetResponse(t)
		mreqsecond.RespondSuccess(json.RawMessage(`{"model":` + modelDelayed + `}`))
		r := creq.GetResponse(t)
		models := r.Result.(map[string]interface{})["models"].(map[string]interface{})
		if _, has := models["test.model"]; !has {
			t.Errorf("C02: test.model.delayedparent delivered with a reference to test.model, which the client no longer holds and which is not in the resource set")
		}
	})
}

// D10 (C09): delete event queued at the subscription, then unsubscribe.
func TestFinding_D10_DeleteEventThenUnsubscribe(t *testing.T) {
	runTest(t, func(s *Session) {
		c := s.Connect()
		subscribeToTestModel(t, s, c)
		s.ResourceEvent("test.model", "reaccess", nil)
		req := s.GetRequest(t).AssertSubject(t, "access.test.model")
		s.ResourceEvent("test.model", "delete", nil)
		time.Sleep(50 * time.Millisecond)
		c.Request("unsubscribe.test.model", nil).GetResponse(t)
		time.Sleep(50 * time.Millisecond)
		req.RespondSuccess(json.RawMessage(`{"get":true}`))
		time.Sleep(50 * time.Millisecond)
		c.Disconnect()
		time.Sleep(100 * time.Millisecond)
		if g := vfGauges(s); g != vfIdleGauges {
			t.Errorf("C09: idle gateway, gauges = %s", g)
		}
	}, vfMetricsNoDelay)
}

// D11 (C01, C02): stale snapshot and stray events after Unsend.
func TestFinding_D11_StaleResendAfterUnsend(t *testing.T) {
	runTest(t, func(s *Session) {
		modelDelayed := `{"name":"delayed"}`
		modelDelayedParent := `{"name":"delayedparent","child":{"rid":"test.model"},"delayed":{"rid":"test.model.delayed"}}`
		c := s.Connect()
		subscribeToTestModelParent(t, s, c, false)
		s.ResourceEvent("test.model", "change", json.RawMessage(`{"values":{"string":"bar"}}`))
		c.GetEvent(t).AssertEventName(t, "test.model.change")
		creq := c.Request("subscribe.test.model.delayedparent", nil)
		mreqs := s.GetParallelRequests(t, 2)
		mreqs.GetRequest(t, "access.test.model.delayedparent").RespondSuccess(json.RawMessage(`{"get":true}`))
		mreqs.GetRequest(t, "get.test.model.delayedparent").RespondSuccess(json.RawMessage(`{"model":` + modelDelayedParent + `}`))
		mreqsecond := s.GetRequest(t)
		c.Request("unsubscribe.test.model.parent", nil).GetResponse(t)
		s.ResourceEvent("test.model", "change", json.RawMessage(`{"values":{"int":43}}`))
		select {
		case ev := <-c.evs:
			t.Errorf("C02: event %s delivered for a resource the client does not hold", ev.Event)
		case <-time.After(200 * time.Millisecond):
		}
		mreqsecond.RespondSuccess(json.RawMessage(`{"model":` + modelDelayed + `}`))
		r := creq.GetResponse(t)
		models := r.Result.(map[string]interface{})["models"].(map[string]interface{})
		m, _ := models["test.model"].(map[string]interface{})
		if m == nil || m["string"] != "bar" || m["int"] != float64(43) {
			t.Errorf("C01: re-sent test.model = %v, service state is string=bar int=43", models["test.model"])
		}
	})
}

// D12 (C08, C06): a reaccess denial removes the direct counts that in-flight requests
// still hold; when such a request returns its count the counter becomes negative.
func TestFinding_D12_NegativeDirectCount(t *testing.T) {
	runTest(t, func(s *Session) {
		c := s.Connect()
		subscribeToTestModelParent(t, s, c, false)       // parent and child (held indirectly)
		subscribeToCachedResource(t, s, c, "test.model") // child also held directly
		s.ResourceEvent("test.model", "reaccess", nil)
		r1 := s.GetRequest(t).AssertSubject(t, "access.test.model")
		greq := c.Request("get.test.model", nil) // waits for the same access answer
		time.Sleep(30 * time.Millisecond)
		r1.RespondSuccess(json.RawMessage(`{"get":false}`))
		greq.GetResponse(t)
		c.GetEvent(t).AssertEventName(t, "test.model.unsubscribe")
		// The resource is now only held indirectly: a reaccess event must not cause an access request.
		s.ResourceEvent("test.model", "reaccess", nil)
		select {
		case r := <-s.NATSTestClient.reqs:
			t.Errorf("C06: %s requested although the connection has no direct subscription", r.Subject)
			r.RespondSuccess(json.RawMessage(`{"get":true}`))
		case <-time.After(200 * time.Millisecond):
		}
		time.Sleep(30 * time.Millisecond)
		sreq := c.Request("subscribe.test.model", nil)
		select {
		case r := <-s.NATSTestClient.reqs:
			r.RespondSuccess(json.RawMessage(`{"get":true}`))
		case <-time.After(200 * time.Millisecond):
		}
		if sr := sreq.GetResponse(t); sr.Error != nil {
			t.Fatalf("subscribe failed: %v", sr.Error)
		}
		if ur := c.Request("unsubscribe.test.model", nil).GetResponse(t); ur.Error != nil {
			t.Errorf("C08: unsubscribe right after a successful subscribe failed: %v", ur.Error)
		}
	})
}
