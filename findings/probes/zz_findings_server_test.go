// In-package reproduction (package server) of defect D6, see /verif/DESIGN.md §4.
package server

import "testing"

// D6 (C17): origins that differ in an invalid UTF-8 byte match.
func TestFinding_D6_OriginRuneCollision(t *testing.T) {
	ao := "http://ex\xffample.com"
	cfg := Config{AllowOrigin: &ao}
	cfg.SetDefault()
	if err := cfg.prepare(); err != nil {
		t.Fatal(err)
	}
	if !matchesOrigins(cfg.allowOrigin, "HTTP://ex\xffample.COM") {
		t.Errorf("listed origin (ASCII case differs) refused")
	}
	if matchesOrigins(cfg.allowOrigin, "http://ex\xfeample.com") {
		t.Errorf("C17: unlisted origin http://ex\\xfeample.com accepted for allow-list %q", cfg.allowOrigin)
	}
}
