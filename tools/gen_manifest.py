#!/usr/bin/env python3
"""Regenerates /verif/MANIFEST.json from tools/manifest_table.json (claimed checks)
and properties.jsonl (everything not claimed goes to not_applicable with its reason)."""
import json, os
here = os.path.dirname(os.path.abspath(__file__))
root = os.path.dirname(here)
props = [json.loads(l)['id'] for l in open(os.path.join(root, 'properties.jsonl'))]
table = json.load(open(os.path.join(here, 'manifest_table.json')))
checks = []
for pid in props:
    t = table['claimed'].get(pid)
    if not t:
        continue
    checks.append({
        "property_id": pid,
        "quick_cmd": f"./check {pid} quick",
        "thorough_cmd": f"./check {pid} thorough",
        "evidence_file": f"/verif/evidence/{pid}.json",
        "replay_cmd_template": "./check --replay {path}",
        "engine": "vfrun",
        "level_claimed": {"category": "model_checking", "text": t['text'], "design_ref": t.get('design_ref', 'DESIGN.md section 3')},
        "level_note": t['note'],
        "technique": t.get('technique', "bounded symbolic execution of the real go/ssa code, assertions discharged by z3 (QF_BV), counterexamples replayed natively"),
    })
na = [{"property_id": pid, "reason": table['not_applicable'].get(pid, "check not built yet; see DESIGN.md")} for pid in props if pid not in table['claimed']]
m = {
    "version": 1,
    "setup_cmd": "cd /verif/engine && GOFLAGS=-mod=mod GOPROXY=off GOSUMDB=off GOTOOLCHAIN=local go build -o ../bin/vfrun ./cmd/vfrun && cd /verif && ./bin/vfrun selftest",
    "hooks": {"guard": "verif",
              "enable": "no source hooks: harness files (//go:build verif) are injected into the real packages by go/packages Overlay for the symbolic run and by `go test -overlay -tags verif` for native replay; nothing is written into /repo",
              "baseline_off_cmd": "cd /repo && go test -vet=off -count=1 -timeout 25m ./...",
              "source_commits": [], "add_only": True},
    "engines": [{"name": "vfrun", "path": "/verif/engine", "serves_properties": [c['property_id'] for c in checks],
                 "kind_free_text": "symbolic interpreter for go/ssa (fork of x/tools go/ssa/interp) + SMT-LIB2 (QF_BV) to a long-lived z3 process; DFS over decision prefixes by re-execution; native replay through go test -overlay"}],
    "checks": checks,
    "notes": table.get('notes', ''),
    "not_applicable": na,
}
json.dump(m, open(os.path.join(root, 'MANIFEST.json'), 'w'), indent=1)
print("claimed:", [c['property_id'] for c in checks])
