#!/usr/bin/env python3
"""Times the thorough tier of every harness of every property separately (cap per run)."""
import json, subprocess, time, os
cap = int(os.environ.get('CAP', '900'))
idx = json.load(open('/verif/harness/index.json'))
env = dict(os.environ, VF_EVIDENCE_DIR='/tmp/thorough_evidence')
seen = set()
for e in idx:
    if e['prop'] == 'SELF' or (e['prop'], e['harness']) in seen:
        continue
    seen.add((e['prop'], e['harness']))
    t0 = time.time()
    cmd = ['timeout', str(cap), '/verif/bin/vfrun', 'check', '-prop', e['prop'], '-tier', 'thorough', '-harness', e['harness']]
    r = subprocess.run(cmd, cwd='/verif', env=env, capture_output=True, text=True)
    last = (r.stdout.strip().splitlines() or [''])[-1][:140]
    print(f"{e['prop']} {e['harness']} rc={r.returncode} {time.time()-t0:.0f}s {last}", flush=True)
