#!/bin/bash
# tools/mut_h.sh <patch> <prop> <harness> <params> : apply a seeded change to /repo, run one harness instance, undo
set -u
cd /repo || exit 2
git apply "$1" || { echo "PATCH DOES NOT APPLY"; exit 2; }
cd /verif
timeout 1150 ./check "$2" quick -harness "$3" -params "$4" 2>&1 | grep -v "^KNOWN-FINDING" | tail -6 | cut -c1-300
echo "exit=${PIPESTATUS[0]}"
git -C /repo checkout -- .
