#!/bin/bash
# runs every thorough check once with a cap, logging wall time and verdict
cd /verif
for p in "$@"; do
  t0=$(date +%s)
  timeout ${CAP:-1500} ./check $p thorough > /tmp/thorough_$p.log 2>&1
  rc=$?
  echo "$p rc=$rc $(( $(date +%s) - t0 ))s $(tail -1 /tmp/thorough_$p.log | cut -c1-150)"
done
