#!/bin/bash
# tools/confirm_mut.sh <worktree> <m1|m2> <seed-id> : confirm a seeded change in its scratch
# worktree against the current /repo HEAD and store it under /verif/seeded/<seed-id>/
set -u
WT="$1"; M="$2"; SID="$3"
OUT=$WT/_out
export GOFLAGS=-mod=mod GOPROXY=off GOSUMDB=off GOTOOLCHAIN=local
cd $WT || exit 2
git checkout -q -- . ; git checkout -q --detach main 2>/dev/null
head=$(git rev-parse --short HEAD)
demo=$OUT/${M}_demo_test.go
place=$(head -1 $demo | sed -n 's/.*place in: *\([^ ]*\).*/\1/p'); place=${place%/}
[ -z "$place" ] && place=test
res=/tmp/confirm_${SID}.txt; : > $res
if ! git apply --check $OUT/$M.patch 2>/dev/null; then echo "patch does not apply on $head" | tee -a $res; exit 1; fi
git apply $OUT/$M.patch
go build ./... >>$res 2>&1 || { echo "BUILD FAILS" | tee -a $res; git checkout -q -- .; exit 1; }
suitefail=0
for i in 1 2; do f=$(go test -vet=off -count=1 ./... 2>&1 | grep -c "^FAIL\|^--- FAIL"); suitefail=$((suitefail+f)); done
cp $demo $place/zz_seeded_demo_test.go
demo_with=$(go test -vet=off -count=1 -run 'Test' ./$place 2>&1 | grep -c "^--- FAIL\|^FAIL\|panic:")
git apply -R $OUT/$M.patch
demo_without=$(go test -vet=off -count=1 -run 'Test' ./$place 2>&1 | grep -c "^--- FAIL\|^FAIL\|panic:")
rm -f $place/zz_seeded_demo_test.go
git checkout -q -- .
echo "head=$head suite_failures=$suitefail demo_failures_with=$demo_with demo_failures_without=$demo_without" | tee -a $res
if [ "$suitefail" = 0 ] && [ "$demo_with" != 0 ] && [ "$demo_without" = 0 ]; then
  d=/verif/seeded/$SID; mkdir -p $d
  cp $OUT/$M.patch $d/patch.diff; cp $demo $d/demo_test.go; cp $OUT/$M.txt $d/notes.txt
  echo CONFIRMED | tee -a $res
else
  echo NOT-CONFIRMED | tee -a $res
fi
