#!/bin/bash
# tools/mut.sh <patch> <prop> [tier]  : apply a seeded change to /repo, run the check, undo
set -u
patch="$1"; prop="$2"; tier="${3:-quick}"
cd /repo || exit 2
git apply "$patch" || { echo "PATCH DOES NOT APPLY"; exit 2; }
cd /verif
timeout 1150 ./check "$prop" "$tier" 2>&1 | grep -v "^KNOWN-FINDING" | tail -5 | cut -c1-260
echo "exit=${PIPESTATUS[0]}"
git -C /repo checkout -- .
