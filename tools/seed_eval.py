#!/usr/bin/env python3
"""Runs every seeded change under /verif/seeded against the checks, on a scratch
worktree of /repo (never /repo itself), and writes seeded/<id>/meta.json."""
import json, os, subprocess, sys, glob, re, time
SCRATCH = os.environ.get('SEED_SCRATCH', '/tmp/seedrun')
EVID = SCRATCH + '_evidence'
env = dict(os.environ, GOFLAGS='-mod=mod', GOPROXY='off', GOSUMDB='off', GOTOOLCHAIN='local', VF_REPO=SCRATCH, VF_EVIDENCE_DIR=EVID)
def sh(cmd, **kw):
    return subprocess.run(cmd, shell=True, capture_output=True, text=True, **kw)
if not os.path.isdir(SCRATCH):
    sh('git -C /repo worktree prune')
    r = sh(f'git -C /repo worktree add --detach {SCRATCH} HEAD')
    if r.returncode != 0:
        sys.exit('cannot create scratch worktree: ' + r.stderr)
only = sys.argv[1:]
# extra properties whose checks are also expected to notice a change
also = {'C03-r5m2': ['C02'], 'C05-r5m1': ['C12'], 'C06-r5m1': ['C12','C03'], 'C08-r5m2': ['C09','C13'], 'C10-r5m1': ['C06','C13'], 'C04-r5m1': ['C06','C12'], 'C12-r5m2': ['C06','C19'], 'C11-r5m1': ['C05','C07'], 'C14-r5m1': ['C17'], 'C16-r5m2': ['C14'], 'C17-r5m2': ['C14'], 'C20-r5m1': ['C09'], 'C09-r5m1': ['C11'], 'C01-r5m2': ['C12'], 'C01-r4m1': ['C16'], 'C01-r4m2': ['C03','C02'], 'C02-r4m2': ['C03'], 'C03-r4m1': ['C02'], 'C04-r4m1': ['C06'], 'C04-r4m2': ['C06'], 'C05-r4m1': ['C06','C12','C19'], 'C05-r4m2': ['C10','C17'], 'C06-r4m1': ['C19','C12'], 'C06-r4m2': ['C02'], 'C07-r4m1': ['C08','C11'], 'C07-r4m2': ['C08'], 'C08-r4m1': ['C09','C15'], 'C08-r4m2': ['C07'], 'C09-r4m1': ['C11'], 'C09-r4m2': ['C08'], 'C10-r4m1': ['C05','C17'], 'C10-r4m2': ['C14','C07'], 'C11-r4m1': ['C06','C19'], 'C11-r4m2': ['C09','C13'], 'C12-r4m1': ['C01'], 'C12-r4m2': ['C06','C19'], 'C13-r4m1': ['C07'], 'C13-r4m2': ['C01','C03'], 'C14-r4m1': ['C10'], 'C14-r4m2': ['C17'], 'C15-r4m1': ['C13'], 'C15-r4m2': ['C09','C08'], 'C16-r4m1': ['C17','C14'], 'C16-r4m2': ['C17'], 'C19-r4m1': ['C11'], 'C19-r4m2': ['C06','C12'], 'C11-r3m1': ['C09'], 'C11-r3m2': ['C13','C09'], 'C13-r3m1': ['C09','C11'], 'C15-r3m1': ['C12','C01'], 'C15-r3m2': ['C14','C01'], 'C14-r3m2': ['C15','C02'], 'C16-r3m1': ['C17'], 'C16-r3m2': ['C14'], 'C19-r3m2': ['C06','C12'], 'C12-r3m2': ['C01'], 'C20-r3m2': ['C09'], 'C17-r3m2': ['C16'], 'C03-r3m2': ['C13','C01'], 'C05-r3m1': ['C06','C10'], 'C04-r3m1': ['C06','C10'], 'C05-r3m2': ['C06','C12'], 'C02-r3m2': ['C06','C08'], 'C01-r3m1': ['C12','C19'], 'C01-r3m2': ['C02'], 'C10-r3m1': ['C16'], 'C10-r3m2': ['C05'], 'C08-r3m2': ['C07'], 'C07-r3m2': ['C08'], 'C04-r3m2': ['C06','C12'], 'C09-r3m1': ['C11'], 'C08-m2': ['C06'], 'C04-m2': ['C06'], 'C11-m1': ['C09'], 'C03-m2': ['C13'], 'C01-m1': ['C13'], 'C15-m2': ['C01'], 'C01-m2': ['C12'], 'C02-m2': ['C01', 'C03'], 'C04-r2m1': ['C06', 'C08'], 'C04-r2m2': ['C12'], 'C19-r2m2': ['C06'], 'C12-r2m1': ['C19'], 'C07-r2m2': ['C13'], 'C01-r2m1': ['C13'], 'C11-r2m1': ['C09'], 'C11-r2m2': ['C17'], 'C03-r2m1': ['C02'], 'C02-r2m2': ['C03'], 'C15-r2m2': ['C13']}
for d in sorted(glob.glob('/verif/seeded/*')):
    sid = os.path.basename(d)
    if only and sid not in only:
        continue
    if os.environ.get('SKIP_DONE') and os.path.exists(d + '/meta.json') and json.load(open(d + '/meta.json')).get('detected'):
        continue
    prop = sid.split('-')[0]
    sh(f'git -C {SCRATCH} checkout -q -- . && git -C {SCRATCH} checkout -q --detach main')
    r = sh(f'git -C {SCRATCH} apply {d}/patch.diff')
    if r.returncode != 0:
        print(sid, 'PATCH DOES NOT APPLY'); continue
    results = []
    for p in ([] if os.environ.get('SKIP_OWN') else [prop]) + also.get(sid, []):
        for tier in os.environ.get('TIERS', 'quick,thorough').split(','):
            t0 = time.time()
            r = sh(f'cd /verif && timeout 2400 ./bin/vfrun check -prop {p} -tier {tier}', env=env)
            out = r.stdout
            viol = [l for l in out.splitlines() if l.startswith('VIOLATION')]
            detail = [l.strip() for l in out.splitlines() if ' assertion=' in l][:3]
            results.append({'property': p, 'tier': tier, 'exit': r.returncode, 'violation_lines': len(viol), 'first': detail, 'wall_s': round(time.time()-t0, 1)})
            print(sid, p, tier, 'exit', r.returncode, round(time.time()-t0), 's', flush=True)
            if r.returncode == 1:
                break
        if results[-1]['exit'] == 1:
            break
    sh(f'git -C {SCRATCH} checkout -q -- .')
    notes = open(d + '/notes.txt').read() if os.path.exists(d + '/notes.txt') else ''
    meta = {
        'id': sid, 'breaks_property': prop,
        'needs_to_manifest': notes.strip().split('\n')[0:12],
        'origin': 'written by an independent sub-agent that saw only the property text' + (' (re-based by hand onto the repaired tree, same mechanism)' if os.path.exists(d + '/ADAPTED.txt') else ''),
        'confirmed': 'tools/confirm_mut.sh: applies on the current /repo HEAD, builds, the unedited 226-test suite passes with it, demo_test.go fails with it and passes without it',
        'checks_run': results,
        'detected': any(x['exit'] == 1 for x in results),
        'detected_by': next((f"{x['property']} {x['tier']}" for x in results if x['exit'] == 1), None),
    }
    json.dump(meta, open(d + '/meta.json', 'w'), indent=1)
